// Package cbpf is an independent interpreter for classic BPF programs in raw
// (kernel) encoding as seccomp runs them, plus a port of the kernel's filter
// verifier. It deliberately shares no code with golang.org/x/net/bpf's VM.
package cbpf

import (
	"errors"
	"fmt"
)

// Raw instruction (struct sock_filter).
type Insn struct {
	Op     uint16
	Jt, Jf uint8
	K      uint32
}

// Event is one seccomp_data record.
type Event struct {
	Nr   uint32
	Arch uint32
	IP   uint64
	Args [6]uint64
}

// Data is seccomp_data as sixteen 32-bit words at byte offsets 0,4,...,60, each
// word holding the value a native 32-bit load at that offset yields.
type Data [16]uint32

// Words lays the event out the way a kernel of the given byte order does.
func (e Event) Words(bigEndian bool) Data {
	var d Data
	d[0] = e.Nr
	d[1] = e.Arch
	put := func(i int, v uint64) {
		if bigEndian {
			d[i], d[i+1] = uint32(v>>32), uint32(v)
		} else {
			d[i], d[i+1] = uint32(v), uint32(v>>32)
		}
	}
	put(2, e.IP)
	for i, a := range e.Args {
		put(4+2*i, a)
	}
	return d
}

// opcode fields
const (
	ClsLD, ClsLDX, ClsST, ClsSTX, ClsALU, ClsJMP, ClsRET, ClsMISC = 0, 1, 2, 3, 4, 5, 6, 7
	SzW, SzH, SzB                                                 = 0x00, 0x08, 0x10
	ModeIMM, ModeABS, ModeIND, ModeMEM, ModeLEN, ModeMSH          = 0x00, 0x20, 0x40, 0x60, 0x80, 0xa0
	SrcK, SrcX, SrcA                                              = 0x00, 0x08, 0x10
	AluADD, AluSUB, AluMUL, AluDIV, AluOR, AluAND, AluLSH, AluRSH = 0x00, 0x10, 0x20, 0x30, 0x40, 0x50, 0x60, 0x70
	AluNEG, AluMOD, AluXOR                                        = 0x80, 0x90, 0xa0
	JmpJA, JmpJEQ, JmpJGT, JmpJGE, JmpJSET                        = 0x00, 0x10, 0x20, 0x30, 0x40
	MiscTAX, MiscTXA                                              = 0x00, 0x80
)

const (
	OpLdWAbs = ClsLD | SzW | ModeABS // 0x20
	OpRetK   = ClsRET | SrcK         // 0x06
	OpRetA   = ClsRET | SrcA         // 0x16
	OpJA     = ClsJMP | JmpJA        // 0x05
)

var ErrFellOff = errors.New("execution ran past the end of the program")

// Run executes prog on d. hits, if non-nil, must have len(prog) and is
// incremented for every executed instruction. trace, if non-nil, receives the
// executed pcs.
func Run(prog []Insn, d *Data, hits []uint32, trace *[]int) (uint32, error) {
	var A, X uint32
	var M [16]uint32
	n := len(prog)
	for pc := 0; pc < n; pc++ {
		in := prog[pc]
		if hits != nil {
			hits[pc]++
		}
		if trace != nil {
			*trace = append(*trace, pc)
		}
		switch in.Op & 7 {
		case ClsLD:
			switch in.Op {
			case OpLdWAbs:
				if in.K%4 != 0 || in.K >= 64 {
					return 0, fmt.Errorf("pc %d: load outside/unaligned in seccomp_data: k=%d", pc, in.K)
				}
				A = d[in.K/4]
			case ClsLD | SzW | ModeLEN:
				A = 64
			case ClsLD | ModeIMM:
				A = in.K
			case ClsLD | ModeMEM:
				if in.K >= 16 {
					return 0, fmt.Errorf("pc %d: bad scratch index", pc)
				}
				A = M[in.K]
			default:
				return 0, fmt.Errorf("pc %d: unsupported load opcode %#x", pc, in.Op)
			}
		case ClsLDX:
			switch in.Op {
			case ClsLDX | SzW | ModeLEN:
				X = 64
			case ClsLDX | ModeIMM:
				X = in.K
			case ClsLDX | ModeMEM:
				if in.K >= 16 {
					return 0, fmt.Errorf("pc %d: bad scratch index", pc)
				}
				X = M[in.K]
			default:
				return 0, fmt.Errorf("pc %d: unsupported ldx opcode %#x", pc, in.Op)
			}
		case ClsST:
			if in.K >= 16 {
				return 0, fmt.Errorf("pc %d: bad scratch index", pc)
			}
			M[in.K] = A
		case ClsSTX:
			if in.K >= 16 {
				return 0, fmt.Errorf("pc %d: bad scratch index", pc)
			}
			M[in.K] = X
		case ClsALU:
			v := in.K
			if in.Op&SrcX != 0 {
				v = X
			}
			switch in.Op & 0xf0 {
			case AluADD:
				A += v
			case AluSUB:
				A -= v
			case AluMUL:
				A *= v
			case AluDIV:
				if v == 0 {
					return 0, nil
				}
				A /= v
			case AluMOD:
				if v == 0 {
					return 0, nil
				}
				A %= v
			case AluOR:
				A |= v
			case AluAND:
				A &= v
			case AluXOR:
				A ^= v
			case AluLSH:
				A <<= v & 31
			case AluRSH:
				A >>= v & 31
			case AluNEG:
				A = -A
			default:
				return 0, fmt.Errorf("pc %d: bad alu op %#x", pc, in.Op)
			}
		case ClsJMP:
			if in.Op == OpJA {
				// pc+1+K, computed without wrap-around
				t := uint64(pc) + 1 + uint64(in.K)
				if t >= uint64(n) {
					return 0, fmt.Errorf("pc %d: ja %d leaves the program (len %d)", pc, in.K, n)
				}
				pc = int(t) - 1
				continue
			}
			v := in.K
			if in.Op&SrcX != 0 {
				v = X
			}
			var c bool
			switch in.Op & 0xf0 {
			case JmpJEQ:
				c = A == v
			case JmpJGT:
				c = A > v
			case JmpJGE:
				c = A >= v
			case JmpJSET:
				c = A&v != 0
			default:
				return 0, fmt.Errorf("pc %d: bad jump op %#x", pc, in.Op)
			}
			off := int(in.Jf)
			if c {
				off = int(in.Jt)
			}
			if pc+1+off >= n {
				return 0, fmt.Errorf("pc %d: conditional jump +%d leaves the program (len %d)", pc, off, n)
			}
			pc += off
		case ClsRET:
			switch in.Op {
			case OpRetK:
				return in.K, nil
			case OpRetA:
				return A, nil
			default:
				return 0, fmt.Errorf("pc %d: bad ret opcode %#x", pc, in.Op)
			}
		case ClsMISC:
			switch in.Op {
			case ClsMISC | MiscTAX:
				X = A
			case ClsMISC | MiscTXA:
				A = X
			default:
				return 0, fmt.Errorf("pc %d: bad misc opcode %#x", pc, in.Op)
			}
		}
	}
	return 0, ErrFellOff
}

const MaxInsns = 4096

// Check is a port of the kernel's acceptance test for a seccomp filter:
// bpf_check_basics_ok + bpf_check_classic + check_load_and_stores
// (net/core/filter.c) followed by seccomp_check_filter (kernel/seccomp.c).
// nil means the kernel attaches the program (given privileges and valid flags).
func Check(prog []Insn) error {
	flen := len(prog)
	if flen == 0 || flen > MaxInsns {
		return fmt.Errorf("length %d outside 1..%d", flen, MaxInsns)
	}
	for pc, f := range prog {
		if !codeAllowed(f.Op) {
			return fmt.Errorf("pc %d: opcode %#x not allowed by bpf_check_classic", pc, f.Op)
		}
		switch f.Op {
		case ClsALU | AluDIV | SrcK, ClsALU | AluMOD | SrcK:
			if f.K == 0 {
				return fmt.Errorf("pc %d: division by constant zero", pc)
			}
		case ClsALU | AluLSH | SrcK, ClsALU | AluRSH | SrcK:
			if f.K >= 32 {
				return fmt.Errorf("pc %d: shift >= 32", pc)
			}
		case ClsLD | ModeMEM, ClsLDX | ModeMEM, ClsST, ClsSTX:
			if f.K >= 16 {
				return fmt.Errorf("pc %d: scratch index %d", pc, f.K)
			}
		case OpJA:
			if f.K >= uint32(flen-pc-1) {
				return fmt.Errorf("pc %d: ja %d out of bounds (len %d)", pc, f.K, flen)
			}
		case ClsJMP | JmpJEQ | SrcK, ClsJMP | JmpJEQ | SrcX, ClsJMP | JmpJGE | SrcK, ClsJMP | JmpJGE | SrcX,
			ClsJMP | JmpJGT | SrcK, ClsJMP | JmpJGT | SrcX, ClsJMP | JmpJSET | SrcK, ClsJMP | JmpJSET | SrcX:
			if pc+int(f.Jt)+1 >= flen || pc+int(f.Jf)+1 >= flen {
				return fmt.Errorf("pc %d: conditional jump (jt=%d jf=%d) out of bounds (len %d)", pc, f.Jt, f.Jf, flen)
			}
		case ClsLD | SzW | ModeABS, ClsLD | SzH | ModeABS, ClsLD | SzB | ModeABS:
			// ancillary loads (k >= SKF_AD_OFF) are rewritten by the socket-filter
			// checker; seccomp_check_filter below rejects any k >= 64 anyway.
		}
	}
	switch prog[flen-1].Op {
	case OpRetK, OpRetA:
	default:
		return fmt.Errorf("last instruction (opcode %#x) is not a return", prog[flen-1].Op)
	}
	if err := checkLoadAndStores(prog); err != nil {
		return err
	}
	// seccomp_check_filter
	for pc, f := range prog {
		switch f.Op {
		case OpLdWAbs:
			if f.K >= 64 || f.K&3 != 0 {
				return fmt.Errorf("pc %d: load at offset %d is unaligned or outside seccomp_data", pc, f.K)
			}
		case ClsLD | SzW | ModeLEN, ClsLDX | SzW | ModeLEN:
		case OpRetK, OpRetA:
		case ClsALU | AluADD | SrcK, ClsALU | AluADD | SrcX, ClsALU | AluSUB | SrcK, ClsALU | AluSUB | SrcX,
			ClsALU | AluMUL | SrcK, ClsALU | AluMUL | SrcX, ClsALU | AluDIV | SrcK, ClsALU | AluDIV | SrcX,
			ClsALU | AluAND | SrcK, ClsALU | AluAND | SrcX, ClsALU | AluOR | SrcK, ClsALU | AluOR | SrcX,
			ClsALU | AluXOR | SrcK, ClsALU | AluXOR | SrcX, ClsALU | AluLSH | SrcK, ClsALU | AluLSH | SrcX,
			ClsALU | AluRSH | SrcK, ClsALU | AluRSH | SrcX, ClsALU | AluNEG:
		case ClsLD | ModeIMM, ClsLDX | ModeIMM, ClsMISC | MiscTAX, ClsMISC | MiscTXA,
			ClsLD | ModeMEM, ClsLDX | ModeMEM, ClsST, ClsSTX:
		case OpJA,
			ClsJMP | JmpJEQ | SrcK, ClsJMP | JmpJEQ | SrcX, ClsJMP | JmpJGE | SrcK, ClsJMP | JmpJGE | SrcX,
			ClsJMP | JmpJGT | SrcK, ClsJMP | JmpJGT | SrcX, ClsJMP | JmpJSET | SrcK, ClsJMP | JmpJSET | SrcX:
		default:
			return fmt.Errorf("pc %d: opcode %#x not allowed in a seccomp filter", pc, f.Op)
		}
	}
	return nil
}

// chk_code_allowed's table.
func codeAllowed(op uint16) bool {
	switch op {
	case ClsALU | AluADD | SrcK, ClsALU | AluADD | SrcX, ClsALU | AluSUB | SrcK, ClsALU | AluSUB | SrcX,
		ClsALU | AluMUL | SrcK, ClsALU | AluMUL | SrcX, ClsALU | AluDIV | SrcK, ClsALU | AluDIV | SrcX,
		ClsALU | AluMOD | SrcK, ClsALU | AluMOD | SrcX, ClsALU | AluAND | SrcK, ClsALU | AluAND | SrcX,
		ClsALU | AluOR | SrcK, ClsALU | AluOR | SrcX, ClsALU | AluXOR | SrcK, ClsALU | AluXOR | SrcX,
		ClsALU | AluLSH | SrcK, ClsALU | AluLSH | SrcX, ClsALU | AluRSH | SrcK, ClsALU | AluRSH | SrcX,
		ClsALU | AluNEG,
		ClsLD | SzW | ModeABS, ClsLD | SzH | ModeABS, ClsLD | SzB | ModeABS, ClsLD | SzW | ModeLEN,
		ClsLD | SzW | ModeIND, ClsLD | SzH | ModeIND, ClsLD | SzB | ModeIND, ClsLD | ModeIMM, ClsLD | ModeMEM,
		ClsLDX | SzW | ModeLEN, ClsLDX | SzB | ModeMSH, ClsLDX | ModeIMM, ClsLDX | ModeMEM,
		ClsST, ClsSTX, ClsMISC | MiscTAX, ClsMISC | MiscTXA, OpRetK, OpRetA,
		OpJA, ClsJMP | JmpJEQ | SrcK, ClsJMP | JmpJEQ | SrcX, ClsJMP | JmpJGE | SrcK, ClsJMP | JmpJGE | SrcX,
		ClsJMP | JmpJGT | SrcK, ClsJMP | JmpJGT | SrcX, ClsJMP | JmpJSET | SrcK, ClsJMP | JmpJSET | SrcX:
		return true
	}
	return false
}

// check_load_and_stores: a scratch word must be written on every path before it is read.
func checkLoadAndStores(prog []Insn) error {
	flen := len(prog)
	masks := make([]uint16, flen)
	for i := range masks {
		masks[i] = 0xffff
	}
	var memvalid uint16
	for pc, f := range prog {
		memvalid &= masks[pc]
		switch f.Op {
		case ClsST, ClsSTX:
			memvalid |= 1 << f.K
		case ClsLD | ModeMEM, ClsLDX | ModeMEM:
			if memvalid&(1<<f.K) == 0 {
				return fmt.Errorf("pc %d: scratch word %d read before written", pc, f.K)
			}
		case OpJA:
			masks[pc+1+int(f.K)] &= memvalid
			memvalid = 0xffff
		case ClsJMP | JmpJEQ | SrcK, ClsJMP | JmpJEQ | SrcX, ClsJMP | JmpJGE | SrcK, ClsJMP | JmpJGE | SrcX,
			ClsJMP | JmpJGT | SrcK, ClsJMP | JmpJGT | SrcX, ClsJMP | JmpJSET | SrcK, ClsJMP | JmpJSET | SrcX:
			masks[pc+1+int(f.Jt)] &= memvalid
			masks[pc+1+int(f.Jf)] &= memvalid
			memvalid = 0xffff
		}
	}
	return nil
}

// Fragment reports whether prog uses only the instruction forms for which the
// exact event partition of DESIGN §2.4 is valid: LD|W|ABS, JA, conditional
// jumps against a constant, RET K.
func Fragment(prog []Insn) error {
	for pc, f := range prog {
		switch f.Op {
		case OpLdWAbs, OpJA, OpRetK,
			ClsJMP | JmpJEQ | SrcK, ClsJMP | JmpJGE | SrcK, ClsJMP | JmpJGT | SrcK, ClsJMP | JmpJSET | SrcK:
		default:
			return fmt.Errorf("pc %d: opcode %#x outside the load/jump-K/ret-K fragment", pc, f.Op)
		}
	}
	return nil
}

// Disasm renders prog for replay output.
func Disasm(prog []Insn) []string {
	out := make([]string, len(prog))
	for i, f := range prog {
		var s string
		switch {
		case f.Op == OpLdWAbs:
			s = fmt.Sprintf("ld [%d]", f.K)
		case f.Op == OpJA:
			s = fmt.Sprintf("ja +%d -> %d", f.K, uint64(i)+1+uint64(f.K))
		case f.Op == OpRetK:
			s = fmt.Sprintf("ret %#x", f.K)
		case f.Op&7 == ClsJMP:
			name := map[uint16]string{JmpJEQ: "jeq", JmpJGT: "jgt", JmpJGE: "jge", JmpJSET: "jset"}[f.Op&0xf0]
			s = fmt.Sprintf("%s %#x jt+%d->%d jf+%d->%d", name, f.K, f.Jt, i+1+int(f.Jt), f.Jf, i+1+int(f.Jf))
		default:
			s = fmt.Sprintf("op=%#x jt=%d jf=%d k=%#x", f.Op, f.Jt, f.Jf, f.K)
		}
		out[i] = fmt.Sprintf("%4d: %s", i, s)
	}
	return out
}
