// Package cgolink exists only to make a binary that imports it cgo-linked (runtime/cgo).
package cgolink

// #include <unistd.h>
import "C"

// Linked reports that C code can be called (and thereby keeps the import alive).
func Linked() bool { return C.getpid() > 0 }
