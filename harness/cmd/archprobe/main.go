// archprobe prints what the library does when the architecture is left implicit. The C19 check builds it once per
// GOARCH with an overlay that substitutes runtime.GOARCH in the library sources, so that the code path of a binary
// built for that target runs on the host.
package main

import (
	"encoding/json"
	"os"

	seccomp "github.com/elastic/go-seccomp-bpf"
	"github.com/elastic/go-seccomp-bpf/arch"
)

func main() {
	out := map[string]any{}
	info, err := arch.GetInfo("")
	if err != nil {
		out["getinfo_err"] = err.Error()
	}
	if info != nil {
		out["getinfo_name"] = info.Name
		out["getinfo_names"] = len(info.SyscallNames)
	}
	try := func(key string, p seccomp.Policy) {
		insts, err := p.Assemble()
		if err != nil {
			out[key+"_err"] = err.Error()
		}
		out[key+"_len"] = len(insts)
	}
	try("default_only", seccomp.Policy{DefaultAction: seccomp.ActionAllow, Syscalls: []seccomp.SyscallGroup{{Action: seccomp.ActionErrno}}})
	try("named", seccomp.Policy{DefaultAction: seccomp.ActionAllow, Syscalls: []seccomp.SyscallGroup{{Action: seccomp.ActionErrno, Names: []string{"read"}}}})
	b, _ := json.Marshal(out)
	os.Stdout.Write(append(b, '\n'))
}
