// archprobe prints what the library does when the architecture is left implicit. The C19 check builds it once per
// GOARCH with an overlay that substitutes runtime.GOARCH in the library sources, so that the code path of a binary
// built for that target runs on the host.
package main

import (
	"encoding/json"
	"os"

	seccomp "github.com/elastic/go-seccomp-bpf"
	"github.com/elastic/go-seccomp-bpf/arch"
)

func main() {
	out := map[string]any{}
	info, err := arch.GetInfo("")
	if err != nil {
		out["getinfo_err"] = err.Error()
	}
	if info != nil {
		out["getinfo_name"] = info.Name
		out["getinfo_names"] = len(info.SyscallNames)
	}
	try := func(key string, p seccomp.Policy) {
		insts, err := p.Assemble()
		if err != nil {
			out[key+"_err"] = err.Error()
		}
		out[key+"_len"] = len(insts)
		// the same policy value again, and a copy of it (what Dump followed by LoadFilter does)
		for i, q := range []*seccomp.Policy{&p, {DefaultAction: p.DefaultAction, Syscalls: p.Syscalls}} {
			_ = i
			cp := *q
			if i == 0 {
				cp = p // a by-value copy carries whatever the first attempt left inside the value
			}
			insts2, err2 := cp.Assemble()
			k := key + "_again"
			if i == 1 {
				k = key + "_fresh_copy"
			}
			if err2 != nil {
				out[k+"_err"] = err2.Error()
			}
			out[k+"_len"] = len(insts2)
		}
		insts3, err3 := p.Assemble()
		if err3 != nil {
			out[key+"_third_err"] = err3.Error()
		}
		out[key+"_third_len"] = len(insts3)
	}
	try("default_only", seccomp.Policy{DefaultAction: seccomp.ActionAllow, Syscalls: []seccomp.SyscallGroup{{Action: seccomp.ActionErrno}}})
	try("named", seccomp.Policy{DefaultAction: seccomp.ActionAllow, Syscalls: []seccomp.SyscallGroup{{Action: seccomp.ActionErrno, Names: []string{"read"}}}})
	b, _ := json.Marshal(out)
	os.Stdout.Write(append(b, '\n'))
}
