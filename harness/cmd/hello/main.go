// hello is a minimal Go ELF used as the binary to profile in the profiler checks.
package main

func main() { println("hello") }
