// mutgen enumerates first-order syntactic mutants of one Go source file: every applicable operator at every position,
// no sampling. It is the systematic complement to the hand-made and sub-agent-made seeded changes: the runner
// (../../../mutrun.sh) keeps the mutants that still compile and pass the repository's own tests and asks the quick checks
// of the properties anchored in that file whether they notice.
//
//	mutgen <file.go> <outdir>     writes <outdir>/m<NNNN>.go (whole mutated file) and <outdir>/index.jsonl
package main

import (
	"encoding/json"
	"fmt"
	"go/ast"
	"go/parser"
	"go/token"
	"os"
	"path/filepath"
	"sort"
	"strconv"
	"strings"
)

type edit struct {
	from, to int // byte offsets in the source
	repl     string
	op       string
}

type entry struct {
	ID     string `json:"id"`
	File   string `json:"file"`
	Line   int    `json:"line"`
	Op     string `json:"op"`
	Before string `json:"before"`
	After  string `json:"after"`
	Func   string `json:"func"`
}

var binSwap = map[token.Token][]token.Token{
	token.EQL: {token.NEQ}, token.NEQ: {token.EQL},
	token.LSS: {token.LEQ, token.GTR}, token.LEQ: {token.LSS}, token.GTR: {token.GEQ, token.LSS}, token.GEQ: {token.GTR},
	token.LAND: {token.LOR}, token.LOR: {token.LAND},
	token.ADD: {token.SUB}, token.SUB: {token.ADD}, token.MUL: {token.ADD},
	token.AND: {token.OR}, token.OR: {token.AND}, token.SHL: {token.SHR}, token.SHR: {token.SHL}, token.AND_NOT: {token.AND},
}

func main() {
	if len(os.Args) != 3 {
		fmt.Fprintln(os.Stderr, "usage: mutgen <file.go> <outdir>")
		os.Exit(2)
	}
	path, out := os.Args[1], os.Args[2]
	src, err := os.ReadFile(path)
	if err != nil {
		panic(err)
	}
	fset := token.NewFileSet()
	f, err := parser.ParseFile(fset, path, src, parser.ParseComments)
	if err != nil {
		panic(err)
	}
	off := func(p token.Pos) int { return fset.Position(p).Offset }
	var edits []edit
	add := func(from, to token.Pos, repl, op string) {
		edits = append(edits, edit{off(from), off(to), repl, op})
	}
	funcOf := map[int]string{} // start offset of an edit -> enclosing function
	var cur string
	for _, d := range f.Decls {
		fd, ok := d.(*ast.FuncDecl)
		cur = ""
		if ok {
			cur = fd.Name.Name
			if fd.Recv != nil && len(fd.Recv.List) > 0 {
				t := fd.Recv.List[0].Type
				if s, ok := t.(*ast.StarExpr); ok {
					t = s.X
				}
				if id, ok := t.(*ast.Ident); ok {
					cur = id.Name + "." + cur
				}
			}
		}
		before := len(edits)
		ast.Inspect(d, func(n ast.Node) bool {
			switch x := n.(type) {
			case *ast.GenDecl:
				if x.Tok == token.IMPORT {
					return false
				}
			case *ast.BinaryExpr:
				for _, t := range binSwap[x.Op] {
					add(x.OpPos, x.OpPos+token.Pos(len(x.Op.String())), t.String(), "binop "+x.Op.String()+"->"+t.String())
				}
			case *ast.UnaryExpr:
				if x.Op == token.NOT {
					add(x.OpPos, x.OpPos+1, "", "drop !")
				}
				if x.Op == token.SUB {
					add(x.OpPos, x.OpPos+1, "+", "unary -->+")
				}
			case *ast.BasicLit:
				if x.Kind == token.INT {
					if v, err := strconv.ParseUint(x.Value, 0, 64); err == nil {
						add(x.Pos(), x.End(), fmt.Sprint(v+1), "int+1")
						if v > 0 {
							add(x.Pos(), x.End(), fmt.Sprint(v-1), "int-1")
						}
					}
				}
			case *ast.IfStmt:
				if _, isBin := x.Cond.(*ast.BinaryExpr); !isBin {
					if _, isNot := x.Cond.(*ast.UnaryExpr); !isNot {
						add(x.Cond.Pos(), x.Cond.End(), "!("+string(src[off(x.Cond.Pos()):off(x.Cond.End())])+")", "negate if")
					}
				}
				if x.Else == nil && x.Init == nil {
					// the guarded block never runs
					add(x.Cond.Pos(), x.Cond.End(), "false && ("+string(src[off(x.Cond.Pos()):off(x.Cond.End())])+")", "if never")
				}
			case *ast.ExprStmt:
				add(x.Pos(), x.End(), "", "delete stmt")
			case *ast.AssignStmt:
				if x.Tok != token.DEFINE {
					add(x.Pos(), x.End(), "", "delete assign")
				}
				if t, ok := map[token.Token]string{token.ADD_ASSIGN: "-=", token.SUB_ASSIGN: "+=", token.OR_ASSIGN: "&=", token.AND_ASSIGN: "|="}[x.Tok]; ok {
					add(x.TokPos, x.TokPos+2, t, "opassign "+x.Tok.String()+"->"+t)
				}
			case *ast.IncDecStmt:
				t := "--"
				if x.Tok == token.DEC {
					t = "++"
				}
				add(x.TokPos, x.TokPos+2, t, "incdec")
				add(x.Pos(), x.End(), "", "delete incdec")
			case *ast.DeferStmt:
				add(x.Pos(), x.End(), "", "delete defer")
			case *ast.BranchStmt:
				if x.Label == nil && x.Tok == token.BREAK {
					add(x.Pos(), x.End(), "continue", "break->continue")
				}
				if x.Label == nil && x.Tok == token.CONTINUE {
					add(x.Pos(), x.End(), "break", "continue->break")
				}
			case *ast.ReturnStmt:
				if n := len(x.Results); n > 0 {
					if id, ok := x.Results[n-1].(*ast.Ident); ok && id.Name == "err" {
						add(id.Pos(), id.End(), "nil", "return err->nil")
					}
					if id, ok := x.Results[n-1].(*ast.Ident); ok && (id.Name == "true" || id.Name == "false") {
						add(id.Pos(), id.End(), map[string]string{"true": "false", "false": "true"}[id.Name], "return bool flip")
					}
				}
			case *ast.CallExpr:
				// swap two adjacent arguments (compiles only when the types agree)
				for i := 0; i+1 < len(x.Args); i++ {
					a, b := x.Args[i], x.Args[i+1]
					sa, sb := string(src[off(a.Pos()):off(a.End())]), string(src[off(b.Pos()):off(b.End())])
					if sa != sb {
						add(a.Pos(), b.End(), sb+", "+sa, "swap args")
					}
				}
			case *ast.CaseClause:
				// a case that never matches: drop its body
				if len(x.Body) > 0 && len(x.List) > 0 {
					add(x.Body[0].Pos(), x.Body[len(x.Body)-1].End(), "", "empty case body")
				}
			case *ast.SliceExpr:
				if x.Low != nil && x.High == nil {
					add(x.Low.Pos(), x.Low.End(), "("+string(src[off(x.Low.Pos()):off(x.Low.End())])+")+1", "slice low+1")
				}
				if x.High != nil {
					add(x.High.Pos(), x.High.End(), "("+string(src[off(x.High.Pos()):off(x.High.End())])+")-1", "slice high-1")
				}
			}
			return true
		})
		for _, e := range edits[before:] {
			funcOf[e.from] = cur
		}
	}
	sort.SliceStable(edits, func(i, j int) bool { return edits[i].from < edits[j].from })
	os.MkdirAll(out, 0o755)
	idx, _ := os.Create(filepath.Join(out, "index.jsonl"))
	defer idx.Close()
	enc := json.NewEncoder(idx)
	base := filepath.Base(path)
	for i, e := range edits {
		id := fmt.Sprintf("m%04d", i)
		mut := string(src[:e.from]) + e.repl + string(src[e.to:])
		os.WriteFile(filepath.Join(out, id+".go"), []byte(mut), 0o644)
		before := string(src[e.from:e.to])
		if len(before) > 80 {
			before = before[:80] + "…"
		}
		line := 1 + strings.Count(string(src[:e.from]), "\n")
		enc.Encode(entry{id, base, line, e.op, before, e.repl, funcOf[e.from]})
	}
	fmt.Printf("%s: %d mutants\n", base, len(edits))
}
