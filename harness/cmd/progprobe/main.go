//go:build verif

// progprobe compiles a fixed set of policies for every syscall table and prints a digest of each raw program. The C19
// check builds it for the host and for GOARCH=386 (which also runs on this machine): a policy must compile to the same
// program wherever the library is built.
package main

import (
	"crypto/sha256"
	"encoding/binary"
	"fmt"
	"sort"

	seccomp "github.com/elastic/go-seccomp-bpf"
	"github.com/elastic/go-seccomp-bpf/arch"
	"golang.org/x/net/bpf"
)

func main() {
	ops := []seccomp.Operation{seccomp.Equal, seccomp.NotEqual, seccomp.GreaterThan, seccomp.LessThan, seccomp.GreaterOrEqual, seccomp.LessOrEqual, seccomp.BitsSet, seccomp.BitsNotSet}
	for _, info := range []*arch.Info{arch.X86_64, arch.I386, arch.ARM, arch.AARCH64} {
		var names []string
		for n := range info.SyscallNames {
			names = append(names, n)
		}
		sort.Strings(names)
		var pols []seccomp.Policy
		pols = append(pols, seccomp.Policy{DefaultAction: seccomp.ActionErrno, Syscalls: []seccomp.SyscallGroup{{Action: seccomp.ActionAllow, Names: names}}})
		pols = append(pols, seccomp.Policy{DefaultAction: seccomp.ActionKillProcess, Syscalls: []seccomp.SyscallGroup{{Action: seccomp.ActionAllow, Names: names[:3]}, {Action: seccomp.ActionErrno, Names: names[3:9]}, {Action: seccomp.ActionTrap}}})
		for oi, op := range ops {
			for arg := uint32(0); arg < 6; arg++ {
				for _, v := range []uint64{0, 5, 1<<32 + 7, 1<<63 + 1<<31, 1<<64 - 1} {
					pols = append(pols, seccomp.Policy{DefaultAction: seccomp.ActionAllow, Syscalls: []seccomp.SyscallGroup{{Action: seccomp.ActionErrno, Names: names[:1],
						NamesWithCondtions: []seccomp.NameWithConditions{{Name: names[1+oi], Conditions: seccomp.ArgumentConditions{{Argument: arg, Operation: op, Value: v}, {Argument: 5 - arg, Operation: ops[(oi+3)%8], Value: v >> 3}}}}}}})
				}
			}
		}
		for i := range pols {
			p := pols[i]
			seccomp.VerifSetArch(&p, info)
			insts, err := p.Assemble()
			if err != nil {
				fmt.Printf("%s %d error %v\n", info.Name, i, err)
				continue
			}
			raw, err := bpf.Assemble(insts)
			if err != nil {
				fmt.Printf("%s %d raw-error %v\n", info.Name, i, err)
				continue
			}
			h := sha256.New()
			binary.Write(h, binary.LittleEndian, raw)
			fmt.Printf("%s %d %d %x\n", info.Name, i, len(raw), h.Sum(nil)[:10])
		}
	}
	// text forms and constants as seen by this build
	fmt.Printf("consts %#x %#x %#x %#x %v %v\n", uint32(seccomp.ActionErrno), uint32(seccomp.ActionAllow), uint32(seccomp.ActionUserNotify), uint32(seccomp.FilterFlagTSync|seccomp.FilterFlagLog), seccomp.ActionKillProcess, seccomp.FilterFlag(3))
}
