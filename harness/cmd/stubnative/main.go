// stubnative calls the library's loader entry points inside a window that is marked with two recognisable system calls
// (writes of a marker string to the invalid descriptor -1). C19 builds it on Linux with an overlay that swaps the
// Linux-only files of the library for the files every non-Linux target uses (the stubs), and runs it under strace: what
// the stub source does between the markers is then visible as real system calls.
package main

import (
	"fmt"
	"os"
	"runtime"
	"runtime/debug"
	"syscall"
	"unsafe"

	seccomp "github.com/elastic/go-seccomp-bpf"
)

func mark(s string) {
	b := []byte(s)
	syscall.RawSyscall(syscall.SYS_WRITE, ^uintptr(0), uintptr(unsafe.Pointer(&b[0])), uintptr(len(b)))
}

func main() {
	debug.SetGCPercent(-1)
	runtime.LockOSThread()
	policies := []seccomp.Policy{
		{},
		{DefaultAction: seccomp.ActionAllow},
		{DefaultAction: seccomp.ActionAllow, Syscalls: []seccomp.SyscallGroup{{Action: seccomp.ActionErrno, Names: []string{"execve", "fork"}}}},
		{DefaultAction: seccomp.ActionErrno, Syscalls: []seccomp.SyscallGroup{{Action: seccomp.ActionAllow, NamesWithCondtions: []seccomp.NameWithConditions{{Name: "read", Conditions: seccomp.ArgumentConditions{{Argument: 0, Operation: seccomp.Equal, Value: 1}}}}}}},
		{DefaultAction: seccomp.ActionAllow, Syscalls: []seccomp.SyscallGroup{{Action: seccomp.ActionErrno, Names: []string{"no_such_syscall"}}}},
		{DefaultAction: seccomp.Action(12345), Syscalls: []seccomp.SyscallGroup{{Action: seccomp.ActionErrno, Names: []string{"execve"}}}},
	}
	var supported [2]bool
	var nnpErrs, loadErrs, loads int
	mark("STUB-WINDOW-BEGIN")
	supported[0] = seccomp.Supported()
	if seccomp.SetNoNewPrivs() != nil {
		nnpErrs++
	}
	for _, nnp := range []bool{false, true} {
		for _, fl := range []seccomp.FilterFlag{0, seccomp.FilterFlagTSync, seccomp.FilterFlagLog, seccomp.FilterFlagTSync | seccomp.FilterFlagLog} {
			for i := range policies {
				loads++
				if seccomp.LoadFilter(seccomp.Filter{NoNewPrivs: nnp, Flag: fl, Policy: policies[i]}) != nil {
					loadErrs++
				}
			}
		}
	}
	supported[1] = seccomp.Supported()
	mark("STUB-WINDOW-END")
	// control: a real system call inside a second window must show up in the trace
	mark("CONTROL-WINDOW-BEGIN")
	syscall.Getuid()
	mark("CONTROL-WINDOW-END")
	fmt.Fprintf(os.Stdout, "STUBPROBE supported=%v nnp_errors=%d loads=%d load_errors=%d\n", supported, nnpErrs, loads, loadErrs)
}
