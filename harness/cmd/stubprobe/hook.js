// Preloaded into node (-r) before Go's wasm_exec_node.js: wraps every function of node's fs and process objects - the
// system interface of a js/wasm Go program - and records the calls made while the probe holds its window open.
const fs = require('fs');
let active = null;
const calls = { stubs: [], control: [] };
function wrapAll(obj, label) {
  for (const k of Object.getOwnPropertyNames(obj)) {
    let v;
    try { v = obj[k]; } catch (e) { continue; }
    if (typeof v !== 'function') continue;
    const d = Object.getOwnPropertyDescriptor(obj, k);
    if (d && d.writable === false && !d.set) continue;
    try {
      obj[k] = function (...a) { if (active) calls[active].push(label + '.' + k); return v.apply(this, a); };
    } catch (e) { /* not replaceable */ }
  }
}
wrapAll(fs, 'fs');
wrapAll(process, 'process');
globalThis.__stubWindow = (on, name) => { active = on ? (name || 'stubs') : null; };
process.on('exit', () => { fs.writeSync(2, 'HOSTCALLS ' + JSON.stringify(calls) + '\n'); });
