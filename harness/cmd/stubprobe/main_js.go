//go:build js && wasm

// stubprobe is built for GOOS=js GOARCH=wasm and run under node by C19: it calls the library's non-Linux stubs inside a
// window during which the preloaded hook (hook.js) records every call the program makes into the host (node's fs and
// process objects are the only system interface a js/wasm program has).
package main

import (
	"fmt"
	"os"
	"syscall/js"

	seccomp "github.com/elastic/go-seccomp-bpf"
)

func main() {
	policies := []seccomp.Policy{
		{},
		{DefaultAction: seccomp.ActionAllow},
		{DefaultAction: seccomp.ActionAllow, Syscalls: []seccomp.SyscallGroup{{Action: seccomp.ActionErrno, Names: []string{"execve", "fork"}}}},
		{DefaultAction: seccomp.ActionErrno, Syscalls: []seccomp.SyscallGroup{{Action: seccomp.ActionAllow, NamesWithCondtions: []seccomp.NameWithConditions{{Name: "read", Conditions: seccomp.ArgumentConditions{{Argument: 0, Operation: seccomp.Equal, Value: 1}}}}}}},
		{DefaultAction: seccomp.ActionAllow, Syscalls: []seccomp.SyscallGroup{{Action: seccomp.ActionErrno, Names: []string{"no_such_syscall"}}}},
		{DefaultAction: seccomp.Action(12345), Syscalls: []seccomp.SyscallGroup{{Action: seccomp.ActionErrno, Names: []string{"execve"}}}},
	}
	supported := make([]bool, 0, 4)
	var nnpErrs, loadErrs, loads int
	js.Global().Call("__stubWindow", true, "stubs")
	supported = append(supported, seccomp.Supported())
	if seccomp.SetNoNewPrivs() != nil {
		nnpErrs++
	}
	for _, nnp := range []bool{false, true} {
		for _, fl := range []seccomp.FilterFlag{0, seccomp.FilterFlagTSync, seccomp.FilterFlagLog, seccomp.FilterFlagTSync | seccomp.FilterFlagLog} {
			for _, p := range policies {
				loads++
				if seccomp.LoadFilter(seccomp.Filter{NoNewPrivs: nnp, Flag: fl, Policy: p}) != nil {
					loadErrs++
				}
			}
		}
	}
	supported = append(supported, seccomp.Supported())
	js.Global().Call("__stubWindow", false)
	// control: the hook must see a host call that really happens (getuid goes to node's process.getuid)
	js.Global().Call("__stubWindow", true, "control")
	os.Getuid()
	js.Global().Call("__stubWindow", false)
	fmt.Printf("STUBPROBE supported=%v nnp_errors=%d loads=%d load_errors=%d\n", supported, nnpErrs, loads, loadErrs)
}
