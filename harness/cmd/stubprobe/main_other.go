//go:build !(js && wasm)

package main

func main() {}
