// sysuser is a small Go program that reaches the kernel through the usual routes (runtime assembly stubs, package syscall
// wrappers, the Syscall/RawSyscall entry points with literal numbers, x/sys/unix); its real disassembly is the input of
// the real-listing phase of C16.
package main

import (
	"fmt"
	"os"
	"syscall"
	"time"

	"golang.org/x/sys/unix"
)

func main() {
	fmt.Println(os.Getpid(), syscall.Getuid(), time.Now().Unix())
	if b, err := os.ReadFile("/proc/self/comm"); err == nil {
		os.Stdout.Write(b)
	}
	syscall.Syscall(syscall.SYS_GETPPID, 0, 0, 0)
	syscall.RawSyscall(syscall.SYS_GETTID, 0, 0, 0)
	syscall.Syscall6(syscall.SYS_GETPGID, 0, 0, 0, 0, 0, 0)
	unix.Getpgrp()
	var ts unix.Timespec
	unix.ClockGettime(unix.CLOCK_MONOTONIC, &ts)
	unix.Syscall(unix.SYS_SCHED_YIELD, 0, 0, 0)
	os.Exit(0)
}
