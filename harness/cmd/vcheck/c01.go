package main

import (
	"fmt"

	seccomp "github.com/elastic/go-seccomp-bpf"

	"verif/harness/engine"
	"verif/harness/evid"
	"verif/harness/refsem"
)

func init() { register("C01", checkC01) }

var s1Defaults = []seccomp.Action{seccomp.ActionAllow, seccomp.ActionErrno, seccomp.ActionKillProcess}
var s1Actions = []seccomp.Action{seccomp.ActionAllow, seccomp.ActionErrno, seccomp.ActionTrap, seccomp.ActionKillThread}
var allNamed = []seccomp.Action{seccomp.ActionKillThread, seccomp.ActionKillProcess, seccomp.ActionTrap, seccomp.ActionErrno,
	seccomp.ActionTrace, seccomp.ActionLog, seccomp.ActionAllow}

// s1Names: lowest number of the table, one from the middle, the highest.
func s1Names(a *refsem.Arch) []string {
	n := a.SortedNames()
	return []string{n[0], n[len(n)/2], n[len(n)-1]}
}

func boundaryNrs(a *refsem.Arch, listed []uint32) []uint32 {
	out := []uint32{0, 1, 0x3FFFFFFF, 0x40000000, 0x7FFFFFFF, 0x80000000, 0xFFFFFFFF}
	for _, n := range listed {
		out = append(out, n|0x40000000)
	}
	return out
}

// s1Size is the closed form of the S1 scope per architecture: 3 defaults x (32 + 32^2 + ... ) group tuples.
func s1Size(maxGroups int) int {
	n, pw := 0, 1
	for g := 1; g <= maxGroups; g++ {
		pw *= 32
		n += pw
	}
	return 3 * n
}

// s1Policy decodes index i (0 <= i < s1Size(maxGroups)) into a policy; simplest first.
func s1Policy(names []string, i int) *seccomp.Policy {
	orig := i
	ng, pw := 1, 32
	for i >= 3*pw {
		i -= 3 * pw
		ng++
		pw *= 32
	}
	p := &seccomp.Policy{DefaultAction: s1Defaults[i%3]}
	i /= 3
	for g := 0; g < ng; g++ {
		c := i % 32
		i /= 32
		grp := seccomp.SyscallGroup{Action: s1Actions[c%4]}
		sub := c / 4
		// spare capacity so that aliasing bugs would surface as changed decisions of later policies
		grp.Names = make([]string, 0, 4)
		for b := 0; b < 3; b++ {
			if sub&(1<<b) != 0 {
				grp.Names = append(grp.Names, names[b])
			}
		}
		// variation that must not matter: descending order of the names; nil instead of an empty slice
		if (orig/5)%2 == 1 {
			for l, r := 0, len(grp.Names)-1; l < r; l, r = l+1, r-1 {
				grp.Names[l], grp.Names[r] = grp.Names[r], grp.Names[l]
			}
		}
		if len(grp.Names) == 0 && (orig/3)%2 == 1 {
			grp.Names = nil
		}
		p.Syscalls = append(p.Syscalls, grp)
	}
	return p
}

func numbersOf(a *refsem.Arch, names []string) []uint32 {
	var out []uint32
	for _, n := range names {
		if v, ok := a.Number(n); ok {
			out = append(out, v)
		}
	}
	return out
}

func checkC01(tier, replay string) int {
	if replay != "" {
		return replayCompile(replay)
	}
	ctx := evid.New("C01", tier, "exploration")
	r := newCompileRun(ctx, engine.ClsDecision)
	runS1(r, tier, nil)
	runS1Raw(r)
	runS1Deep(r, tier)
	runS1Table(r, tier)
	r.finish("every policy of scope S1 (1..3 groups x subsets of 3 names x 4 actions x 3 defaults, 4 architectures), the raw-action scope, the deep scope (4..8 groups, each empty or one of 3 names) and the table sweeps (first-k names for every k, two/three-group splits at every cut) is compiled by the real Policy.Assemble and run by an independent cBPF interpreter on one representative of every cell of the exact event partition (DESIGN 2.4), i.e. on all 32-bit nr / arch / argument values up to equivalence; non-trivial = the policy's program produced at least two distinct decisions")
	ctx.Assumptions = []string{"reference decision function refsem.Decide is the statement of C01", "syscall numbers come from vendored kernel/Go tables (oracles.json) with the library table as fall-back for names no oracle lists", "cell partition soundness argument of DESIGN 2.4 (cross-checked by literal nr sweeps in the thorough tier)"}
	if tier == "thorough" {
		literalNrSweeps(r)
	}
	return ctx.Finish()
}

// runS1 explores scope S1. extra lets C04 add architecture words.
func runS1(r *compileRun, tier string, extraArch []uint32) {
	for ai, a := range refsem.Archs() {
		names := s1Names(a)
		maxG := 2
		if tier == "thorough" || ai == 0 {
			maxG = 3
		}
		n := s1Size(maxG)
		extra := boundaryNrs(a, numbersOf(a, names))
		parallelFor(n, func(i int) {
			p := s1Policy(names, i)
			r.one(fmt.Sprintf("S1/%s", a.Name), a, p, engine.Options{ExtraNr: extra, ExtraArch: extraArch, Filler: uint32(i)})
		})
		r.ctx.Count("s1_policies_expected_"+a.Name, int64(n))
	}
}

// runS1Raw: group actions that are not among the seven named ones must be returned as their exact constant.
func runS1Raw(r *compileRun) {
	raw := []seccomp.Action{seccomp.ActionUserNotify, seccomp.ActionErrno | 5, seccomp.ActionErrno | 2, seccomp.ActionTrace | 7, 0x12345678}
	for _, a := range refsem.Archs() {
		names := s1Names(a)
		extra := boundaryNrs(a, numbersOf(a, names))
		for _, def := range allNamed {
			for _, act1 := range append(append([]seccomp.Action{}, allNamed...), raw...) {
				for _, act2 := range raw {
					p := &seccomp.Policy{DefaultAction: def, Syscalls: []seccomp.SyscallGroup{
						{Action: act1, Names: []string{names[0], names[2]}},
						{Action: act2, Names: []string{names[1], names[0]}},
					}}
					r.one("S1raw/"+a.Name, a, p, engine.Options{ExtraNr: extra})
				}
			}
		}
	}
}

// runS1Table: whole-table size sweeps and group splits.
func runS1Table(r *compileRun, tier string) {
	for ai, a := range refsem.Archs() {
		names := a.SortedNames()
		T := len(names)
		extra := boundaryNrs(a, nil)
		// one group with the first k names, k = 0..T
		parallelFor(T+1, func(k int) {
			def := allNamed[k%7]
			act := allNamed[(k/7+1)%7]
			if act == def {
				act = allNamed[(k/7+2)%7]
			}
			p := &seccomp.Policy{DefaultAction: def, Syscalls: []seccomp.SyscallGroup{{Action: act, Names: names[:k:k]}}}
			r.one("S1table-k/"+a.Name, a, p, engine.Options{ExtraNr: extra})
		})
		// the first k names in descending and in interleaved order (the order inside a group must not matter)
		stepD := 2
		if tier == "quick" {
			stepD = 7
		}
		parallelFor((T+stepD)/stepD, func(ci int) {
			k := ci * stepD
			if k > T {
				k = T
			}
			desc := make([]string, k)
			for i := 0; i < k; i++ {
				if ci%2 == 0 {
					desc[i] = names[k-1-i]
				} else {
					// interleave from both ends
					if i%2 == 0 {
						desc[i] = names[i/2]
					} else {
						desc[i] = names[k-1-i/2]
					}
				}
			}
			p := &seccomp.Policy{DefaultAction: allNamed[(k+2)%7], Syscalls: []seccomp.SyscallGroup{{Action: allNamed[(k+4)%7], Names: desc}}}
			r.one("S1table-unsorted/"+a.Name, a, p, engine.Options{ExtraNr: extra})
		})
		// two groups split at every cut point
		step := 1
		if tier == "quick" {
			step = 3
		}
		cuts := (T + step) / step
		parallelFor(cuts, func(ci int) {
			k := ci * step
			if k > T {
				k = T
			}
			def := allNamed[k%7]
			p := &seccomp.Policy{DefaultAction: def, Syscalls: []seccomp.SyscallGroup{
				{Action: allNamed[(k+1)%7], Names: names[:k:k]},
				{Action: allNamed[(k+3)%7], Names: names[k:T:T]},
			}}
			r.one("S1table-split2/"+a.Name, a, p, engine.Options{ExtraNr: extra})
		})
		// three groups at pairs of cut points
		if ai == 0 {
			st := 8
			if tier == "quick" {
				st = 48
			}
			var pairs [][2]int
			for k1 := 0; k1 <= T; k1 += st {
				for k2 := k1; k2 <= T; k2 += st {
					pairs = append(pairs, [2]int{k1, k2})
				}
			}
			parallelFor(len(pairs), func(i int) {
				k1, k2 := pairs[i][0], pairs[i][1]
				p := &seccomp.Policy{DefaultAction: allNamed[i%7], Syscalls: []seccomp.SyscallGroup{
					{Action: allNamed[(i+1)%7], Names: names[:k1:k1]},
					{Action: allNamed[(i+2)%7], Names: names[k1:k2:k2]},
					{Action: allNamed[(i+4)%7], Names: names[k2:T:T]},
				}}
				r.one("S1table-split3/"+a.Name, a, p, engine.Options{ExtraNr: extra})
			})
		}
	}
}

// runS1Deep: many groups. n = 4..8 groups (thorough: ..9), every group is empty or lists one of the three names
// (4 choices per group), the action of group i is fixed by i so that the deciding group is identified by the answer.
func runS1Deep(r *compileRun, tier string) {
	acts := []seccomp.Action{seccomp.ActionAllow, seccomp.ActionErrno, seccomp.ActionTrap, seccomp.ActionKillThread, seccomp.ActionLog, seccomp.ActionTrace, seccomp.ActionKillProcess, seccomp.ActionUserNotify, seccomp.ActionErrno | 9, seccomp.ActionErrno | 6}
	maxN := 8
	if tier == "thorough" {
		maxN = 9
	}
	for ai, a := range refsem.Archs() {
		if ai > 0 && tier == "quick" {
			maxN = 6
		}
		names := s1Names(a)
		extra := boundaryNrs(a, numbersOf(a, names))
		for n := 4; n <= maxN; n++ {
			total := 1
			for i := 0; i < n; i++ {
				total *= 4
			}
			n := n
			parallelFor(total, func(idx int) {
				p := &seccomp.Policy{DefaultAction: s1Defaults[idx%3]}
				x := idx
				for g := 0; g < n; g++ {
					c := x % 4
					x /= 4
					grp := seccomp.SyscallGroup{Action: acts[(g+idx)%len(acts)]}
					if c > 0 {
						grp.Names = []string{names[c-1]}
					}
					p.Syscalls = append(p.Syscalls, grp)
				}
				r.one("S1deep/"+a.Name, a, p, engine.Options{ExtraNr: extra})
			})
		}
	}
}
