package main

import (
	"fmt"

	seccomp "github.com/elastic/go-seccomp-bpf"

	"verif/harness/cbpf"
	"verif/harness/engine"
	"verif/harness/evid"
	"verif/harness/refsem"
)

func init() { register("C02", checkC02) }

var allOps = []seccomp.Operation{seccomp.Equal, seccomp.NotEqual, seccomp.GreaterThan, seccomp.LessThan,
	seccomp.GreaterOrEqual, seccomp.LessOrEqual, seccomp.BitsSet, seccomp.BitsNotSet}

// v64 is the operand alphabet: every value at which a 32-bit lowering of a 64-bit relation can go wrong.
func v64() []uint64 {
	vs := []uint64{0, 1, 2, 1<<31 - 1, 1 << 31, 1<<31 + 1, 1<<32 - 1, 1 << 32, 1<<32 + 1, 1<<32 + 2, 1<<33 - 1,
		1<<63 - 1, 1 << 63, 1<<63 + 1, 1<<64 - 1, 1<<64 - 2,
		0x0102030405060708, 0x1020304050607080,
		1 << 15, 1 << 47, 1 << 62,
		0xFFFFFFFF00000000, 0x00000000FFFFFFFF, 0x8000000000000000 | 0x80000000, 0x7FFFFFFF7FFFFFFF,
		0xAAAAAAAAAAAAAAAA, 0x5555555555555555, 0xAAAAAAAA55555555, 0x55555555AAAAAAAA,
		0x0000000100000000, 0x00000001FFFFFFFF, 0xFFFFFFFF00000001, 0xFFFFFFFE00000000, 0x00000000FFFFFFFE,
		0x0000003B0000003B, 0x000000010000003B, 0x0000003B00000001, 0x100000000000, 0x10000000,
		0xDEADBEEFCAFEF00D, 0x8000000000000001, 0x0000000080000000, 0x8000000000000000 - 1<<32,
		0xFFFFFFFFFFFF0000, 0x000000000000FFFF}
	seen := map[uint64]bool{}
	var out []uint64
	for _, v := range vs {
		if !seen[v] {
			seen[v] = true
			out = append(out, v)
		}
	}
	return out
}

func checkC02(tier, replay string) int {
	if replay != "" {
		return replayCompile(replay)
	}
	ctx := evid.New("C02", tier, "exploration")
	r := newCompileRun(ctx, engine.ClsDecision)
	vs := v64()
	type job struct {
		a   *refsem.Arch
		op  seccomp.Operation
		arg uint32
		v   uint64
	}
	var jobs []job
	archs := refsem.Archs() // all four architectures in both tiers (32-bit ABIs must not treat operands differently)
	single := vs
	if tier == "thorough" {
		// thorough: additionally every operand with one or two bits set, every complement of a single bit, and every
		// combination of six boundary half-words in the two halves
		seen := map[uint64]bool{}
		single = nil
		add := func(v uint64) {
			if !seen[v] {
				seen[v] = true
				single = append(single, v)
			}
		}
		for _, v := range vs {
			add(v)
		}
		for i := 0; i < 64; i++ {
			add(1 << i)
			add(^(uint64(1) << i))
			for k := i + 1; k < 64; k++ {
				add(1<<i | 1<<k)
			}
		}
		halves := []uint64{0, 1, 0x3b, 0x7fffffff, 0x80000000, 0xffffffff}
		for _, h := range halves {
			for _, l := range halves {
				add(h<<32 | l)
			}
		}
		ctx.Cov["single_condition_operands"] = len(single)
	}
	for _, a := range archs {
		for _, op := range allOps {
			for arg := uint32(0); arg < 6; arg++ {
				for _, v := range single {
					jobs = append(jobs, job{a, op, arg, v})
				}
			}
		}
	}
	mk := func(j job) *seccomp.Policy {
		n := s1Names(j.a)
		return &seccomp.Policy{DefaultAction: seccomp.ActionAllow, Syscalls: []seccomp.SyscallGroup{{Action: seccomp.ActionErrno,
			NamesWithCondtions: []seccomp.NameWithConditions{{Name: n[1], Conditions: seccomp.ArgumentConditions{{Argument: j.arg, Operation: j.op, Value: j.v}}}}}}}
	}
	// little-endian layout (what production uses on this host); fully parallel
	parallelFor(len(jobs), func(i int) {
		j := jobs[i]
		r.one("S2/le/"+string(j.op), j.a, mk(j), engine.Options{Filler: uint32(j.v) ^ 0x5a5a5a5a})
	})
	// big-endian layout through the byte-order hook (serialised by the override lock)
	parallelFor(len(jobs), func(i int) {
		j := jobs[i]
		r.one("S2/be/"+string(j.op), j.a, mk(j), engine.Options{Big: true, Filler: uint32(j.v) ^ 0x5a5a5a5a})
	})
	// Sensitivity control (not a property check): a program compiled for one layout and run on the other
	// must be distinguishable whenever the operand's halves differ; otherwise the harness could not see a word swap.
	swapSeen, swapTried := 0, 0
	for _, v := range vs {
		if uint32(v) == uint32(v>>32) {
			continue
		}
		j := job{archs[0], seccomp.Equal, 2, v}
		insts, err, _ := engine.Compile(j.a, mk(j), false)
		if err != nil {
			continue
		}
		prog, _ := engine.Raw(insts)
		ev := cbpf.Event{Nr: mustNum(j.a, s1Names(j.a)[1]), Arch: j.a.ID}
		ev.Args[2] = v
		d := ev.Words(true) // wrong layout
		got, _ := cbpf.Run(prog, &d, nil, nil)
		swapTried++
		if got != refsem.Decide(j.a, mk(j), ev) {
			swapSeen++
		}
	}
	ctx.Cov["layout_swap_control"] = fmt.Sprintf("%d of %d operands with differing halves are decided wrongly when the data layout is swapped (expected: all)", swapSeen, swapTried)
	if swapSeen != swapTried && ctx.NumViolations() == 0 {
		// (with violations already recorded the library's word selection is broken, which is what makes the control fail:
		// they are reported below; without any, the harness itself cannot tell the two layouts apart and says so)
		fmt.Println("harness self-check failed: layout swap not observable")
		return 2
	}
	// literal (operand, actual) pairs and two conditions on one argument
	pairOps := allOps
	pairArgs := []uint32{0, 5}
	if tier == "thorough" {
		pairArgs = []uint32{0, 1, 2, 3, 4, 5}
	}
	for _, a := range archs {
		c02Pairs(ctx, r, a, vs, pairOps, pairArgs, func(a *refsem.Arch, op seccomp.Operation, arg uint32, v uint64) *seccomp.Policy {
			return mk(job{a, op, arg, v})
		})
	}
	return c02Finish(ctx, r)
}

func c02Finish(ctx *evid.Ctx, r *compileRun) int {
	r.finish("8 operations x 6 argument positions x operand alphabet V64 (values at every 32-bit boundary, single bits, half patterns; thorough tier: plus every operand with one or two bits set, every complement of a single bit and all 36 combinations of six boundary half-words) x every cell of the exact partition of the actual argument's two words (below/equal/above each operand half, every mask sign vector) x every other word the program loads, under both byte orders of seccomp_data, on all four architectures; plus all literal (operand, actual) pairs of V64 x V64 and all pairs of operations on one argument; non-trivial = program yields >= 2 distinct decisions")
	ctx.Assumptions = []string{"Go uint64 arithmetic is the reference relation", "the byte-order hook VerifSetByteOrder only replaces the package variable nativeEndian"}
	return ctx.Finish()
}

func c02Pairs(ctx *evid.Ctx, r *compileRun, a *refsem.Arch, vs []uint64, pairOps []seccomp.Operation, pairArgs []uint32, mkJob func(a *refsem.Arch, op seccomp.Operation, arg uint32, v uint64) *seccomp.Policy) {
	nr := mustNum(a, s1Names(a)[1])
	type pj struct {
		op  seccomp.Operation
		arg uint32
		v   uint64
		big bool
	}
	var pjobs []pj
	for _, big := range []bool{false, true} {
		for _, op := range pairOps {
			for _, arg := range pairArgs {
				for _, v := range vs {
					pjobs = append(pjobs, pj{op, arg, v, big})
				}
			}
		}
	}
	parallelFor(len(pjobs), func(i int) {
		j := pjobs[i]
		p := mkJob(a, j.op, j.arg, j.v)
		insts, err, pan := engine.Compile(a, p, j.big)
		if err != nil || pan != nil {
			ctx.Violation(fmt.Sprintf("C02:compile:%s:%d:%#x", j.op, j.arg, j.v), fmt.Sprintf("single-condition policy does not compile: %v %v", err, pan), engine.ToJSON(a, p, j.big))
			return
		}
		prog, _ := engine.Raw(insts)
		for _, actual := range vs {
			ev := cbpf.Event{Nr: nr, Arch: a.ID}
			for k := range ev.Args {
				ev.Args[k] = ^actual // a wrong register would flip most relations
			}
			ev.Args[j.arg] = actual
			d := ev.Words(j.big)
			got, xerr := cbpf.Run(prog, &d, nil, nil)
			want := refsem.Decide(a, p, ev)
			ctx.Count("literal_pair_events", 1)
			if xerr != nil || got != want {
				e := ev
				ctx.Violation(fmt.Sprintf("C02:pair:%s:%d:%#x:%#x:%v", j.op, j.arg, j.v, actual, j.big),
					fmt.Sprintf("%s arg%d operand %#x actual %#x big=%v: got %#x want %#x", j.op, j.arg, j.v, actual, j.big, got, want),
					compileReplay{Scope: "S2pair", Policy: engine.ToJSON(a, p, j.big), Event: &e, Got: fmt.Sprintf("%#x", got), Want: fmt.Sprintf("%#x", want), Class: engine.ClsDecision})
			}
		}
	})
	// two conditions on the same argument (AND), all op pairs, boundary operands
	small := []uint64{0, 1<<32 - 1, 1 << 32, 0x0000003B0000003B, 1<<64 - 1}
	type tj struct {
		o1, o2 seccomp.Operation
		v1, v2 uint64
	}
	var tjobs []tj
	for _, o1 := range allOps {
		for _, o2 := range allOps {
			for _, v1 := range small {
				for _, v2 := range small {
					tjobs = append(tjobs, tj{o1, o2, v1, v2})
				}
			}
		}
	}
	parallelFor(len(tjobs), func(i int) {
		j := tjobs[i]
		n := s1Names(a)
		p := &seccomp.Policy{DefaultAction: seccomp.ActionAllow, Syscalls: []seccomp.SyscallGroup{{Action: seccomp.ActionErrno,
			NamesWithCondtions: []seccomp.NameWithConditions{{Name: n[1], Conditions: seccomp.ArgumentConditions{
				{Argument: 3, Operation: j.o1, Value: j.v1}, {Argument: 3, Operation: j.o2, Value: j.v2}}}}}}}
		r.one("S2/two-on-one-arg", a, p, engine.Options{})
	})
}
