package main

import (
	"fmt"
	"sync"

	seccomp "github.com/elastic/go-seccomp-bpf"

	"verif/harness/engine"
	"verif/harness/evid"
	"verif/harness/refsem"
)

func init() { register("C03", checkC03) }

// Scope S3 (DESIGN C03): entry sequences over three names whose numbers
// collide with the condition operands.
type s3Entry struct {
	name  int // index into names
	conds []seccomp.Condition
}

type s3Scope struct {
	a        *refsem.Arch
	names    []string
	alphabet []seccomp.Condition
}

func s3Names(a *refsem.Arch) []string {
	switch a.Name {
	case "x86_64":
		return []string{"read", "write", "execve"} // 0, 1, 59
	case "arm":
		return []string{"restart_syscall", "exit", "execve"} // 0, 1, 11
	case "i386":
		return []string{"restart_syscall", "exit", "execve"}
	default:
		n := a.SortedNames()
		return []string{n[0], n[1], n[len(n)/2]}
	}
}

func newS3(a *refsem.Arch, ops []seccomp.Operation) *s3Scope {
	s := &s3Scope{a: a, names: s3Names(a)}
	n1, n2 := uint64(mustNum(a, s.names[1])), uint64(mustNum(a, s.names[2]))
	for _, arg := range []uint32{0, 1} {
		for _, op := range ops {
			for _, v := range []uint64{n1, n2, 1<<32 + n2} {
				s.alphabet = append(s.alphabet, seccomp.Condition{Argument: arg, Operation: op, Value: v})
			}
		}
	}
	return s
}

// policies enumerates every policy whose entry sequence has 1..maxEntries entries, at least one conditional
// entry, at most maxConds conditions in total and at most 2 conditions per list, in one group or split into two.
func (s *s3Scope) policies(maxEntries, maxConds int, emit func(p *seccomp.Policy)) {
	var seq []s3Entry
	var rec func(condsLeft int)
	build := func() {
		hasCond := false
		for _, e := range seq {
			if len(e.conds) > 0 {
				hasCond = true
			}
		}
		if !hasCond {
			return
		}
		for split := len(seq); split >= 1; split-- { // split == len(seq): one group
			canon := true
			mk := func(part []s3Entry, act seccomp.Action) seccomp.SyscallGroup {
				g := seccomp.SyscallGroup{Action: act}
				seenCond := false
				for _, e := range part {
					if len(e.conds) == 0 {
						if seenCond {
							canon = false // same policy as the sequence with the unconditional entry first
						}
						g.Names = append(g.Names, s.names[e.name])
					} else {
						seenCond = true
						g.NamesWithCondtions = append(g.NamesWithCondtions, seccomp.NameWithConditions{Name: s.names[e.name], Conditions: e.conds})
					}
				}
				return g
			}
			for _, def := range []seccomp.Action{seccomp.ActionAllow, seccomp.ActionErrno} { // errno: the first group then has the default action (an exception list before a later group)
				p := &seccomp.Policy{DefaultAction: def}
				p.Syscalls = append(p.Syscalls, mk(seq[:split], seccomp.ActionErrno))
				if split < len(seq) {
					p.Syscalls = append(p.Syscalls, mk(seq[split:], seccomp.ActionTrap))
				}
				if canon {
					emit(p)
				}
			}
		}
	}
	rec = func(condsLeft int) {
		if len(seq) > 0 {
			build()
		}
		if len(seq) == maxEntries {
			return
		}
		for n := 0; n < 3; n++ {
			seq = append(seq, s3Entry{name: n})
			rec(condsLeft)
			seq = seq[:len(seq)-1]
		}
		if condsLeft >= 1 {
			for n := 0; n < 3; n++ {
				for _, c1 := range s.alphabet {
					seq = append(seq, s3Entry{name: n, conds: []seccomp.Condition{c1}})
					rec(condsLeft - 1)
					seq = seq[:len(seq)-1]
				}
			}
		}
		if condsLeft >= 2 {
			for n := 0; n < 3; n++ {
				for _, c1 := range s.alphabet {
					for _, c2 := range s.alphabet {
						seq = append(seq, s3Entry{name: n, conds: []seccomp.Condition{c1, c2}})
						rec(condsLeft - 2)
						seq = seq[:len(seq)-1]
					}
				}
			}
		}
	}
	rec(maxConds)
}

// feed runs produce in one goroutine and consume on all cores, in batches.
func feed(produce func(emit func(p *seccomp.Policy)), consume func(p *seccomp.Policy)) {
	ch := make(chan []*seccomp.Policy, 64)
	var wg sync.WaitGroup
	for w := 0; w < 16; w++ {
		wg.Add(1)
		go func() {
			defer wg.Done()
			for b := range ch {
				for _, p := range b {
					consume(p)
				}
			}
		}()
	}
	batch := make([]*seccomp.Policy, 0, 256)
	produce(func(p *seccomp.Policy) {
		// deep-copy the slices that the generator reuses
		cp := &seccomp.Policy{DefaultAction: p.DefaultAction, Syscalls: make([]seccomp.SyscallGroup, len(p.Syscalls))}
		copy(cp.Syscalls, p.Syscalls)
		batch = append(batch, cp)
		if len(batch) == cap(batch) {
			ch <- batch
			batch = make([]*seccomp.Policy, 0, 256)
		}
	})
	if len(batch) > 0 {
		ch <- batch
	}
	close(ch)
	wg.Wait()
}

func runS3(r *compileRun, a *refsem.Arch, ops []seccomp.Operation, maxEntries, maxConds int, opt engine.Options, label string) {
	s := newS3(a, ops)
	feed(func(emit func(p *seccomp.Policy)) { s.policies(maxEntries, maxConds, emit) },
		func(p *seccomp.Policy) { r.one(label+"/"+a.Name, a, p, opt) })
}

func checkC03(tier, replay string) int {
	if replay != "" {
		return replayCompile(replay)
	}
	ctx := evid.New("C03", tier, "exploration")
	r := newCompileRun(ctx, engine.ClsDecision)
	x, arm := refsem.ArchByName("x86_64"), refsem.ArchByName("arm")
	if tier == "quick" {
		runS3(r, x, allOps, 3, 2, engine.Options{}, "S3(e<=3,c<=2)")
		runS3(r, arm, allOps, 2, 2, engine.Options{}, "S3(e<=2,c<=2)")
		runS3(r, x, []seccomp.Operation{seccomp.Equal, seccomp.BitsSet}, 3, 3, engine.Options{}, "S3(e<=3,c<=3,ops=Equal|BitsSet)")
	} else {
		runS3(r, x, allOps, 3, 3, engine.Options{}, "S3(e<=3,c<=3)")
		runS3(r, arm, allOps, 3, 2, engine.Options{}, "S3(e<=3,c<=2)")
		runS3(r, x, []seccomp.Operation{seccomp.Equal, seccomp.BitsSet}, 3, 4, engine.Options{}, "S3(e<=3,c<=4,ops=Equal|BitsSet)")
	}
	runS3Big(r, x)
	runS3Mixed(r)
	runS3Pairs(r, x, tier)
	if tier != "quick" {
		runS3Pairs(r, arm, tier)
	}
	r.finish(fmt.Sprintf("all policies of scope S3: entry sequences of <=3 entries over 3 syscalls (numbers 0,1,59 on x86_64), entries unconditional or with a list of 1-2 conditions (arg in {0,1} x 8 operations x operands {nr(n1), nr(n2), 2^32+nr(n2)} chosen to collide with other entries' syscall numbers), same syscall repeated (merged OR lists) and repeated arguments included, in one group or split over two groups at every point, 2 defaults; plus S3big (lists of up to 3 conditions, repeats) S3pairs (every ordered pair of single-condition entries for one syscall over arguments {0,1,5} x 8 operations x operands {0, 1, nr, 2^32, 2^32+nr, 2^58, 2^61, 2^63, 2^64-1}, i.e. operands whose set bits reach into every byte of the word, followed by an entry for another syscall; masks and order constants never meet on one word) and S3mixed (groups of 1..100 unconditional names around powers of two together with conditional entries numbered below, inside and above their range, on all four architectures); each compiled by the real compiler and run on every cell of the exact partition (nr x arch x all argument words); tier %s bounds are in the scope labels of the samples; non-trivial = >= 2 distinct decisions", tier))
	ctx.Assumptions = []string{"reference decision function refsem.Decide is the statement of C03", "cell partition soundness argument of DESIGN 2.4"}
	return ctx.Finish()
}

// runS3Big: entries with more lists / more conditions per list than S3 proper, fewer operand choices.
func runS3Big(r *compileRun, a *refsem.Arch) {
	n := s3Names(a)
	n1, n2 := uint64(mustNum(a, n[1])), uint64(mustNum(a, n[2]))
	conds := []seccomp.Condition{
		{Argument: 0, Operation: seccomp.Equal, Value: n1}, {Argument: 0, Operation: seccomp.NotEqual, Value: n2},
		{Argument: 1, Operation: seccomp.GreaterThan, Value: n1}, {Argument: 1, Operation: seccomp.BitsSet, Value: 1<<32 + n2},
		{Argument: 0, Operation: seccomp.LessOrEqual, Value: n2},
	}
	// every entry = name x (1..3 lists, each a non-empty subset of size <=3 of conds)
	var lists []seccomp.ArgumentConditions
	for m := 1; m < 1<<len(conds); m++ {
		var l seccomp.ArgumentConditions
		for i, c := range conds {
			if m&(1<<i) != 0 {
				l = append(l, c)
			}
		}
		if len(l) <= 3 {
			lists = append(lists, l)
		}
	}
	// lists that repeat a condition verbatim with another one in between ([a, b, a]) or next to it ([a, a, b], [b, a, a])
	for ai, ca := range conds {
		for bi, cb := range conds {
			if ai != bi {
				lists = append(lists, seccomp.ArgumentConditions{ca, cb, ca}, seccomp.ArgumentConditions{ca, ca, cb}, seccomp.ArgumentConditions{cb, ca, ca})
			}
		}
	}
	type pr struct{ i, j, k int }
	var jobs []pr
	for i := range lists {
		for j := -1; j < len(lists); j++ {
			for k := -1; k < len(lists); k += 5 {
				jobs = append(jobs, pr{i, j, k})
			}
		}
	}
	parallelFor(len(jobs), func(x int) {
		j := jobs[x]
		g := seccomp.SyscallGroup{Action: seccomp.ActionErrno, Names: []string{n[0]}}
		g.NamesWithCondtions = append(g.NamesWithCondtions, seccomp.NameWithConditions{Name: n[1], Conditions: lists[j.i]})
		if j.j >= 0 {
			g.NamesWithCondtions = append(g.NamesWithCondtions, seccomp.NameWithConditions{Name: n[1], Conditions: lists[j.j]})
		}
		if j.k >= 0 {
			g.NamesWithCondtions = append(g.NamesWithCondtions, seccomp.NameWithConditions{Name: n[2], Conditions: lists[j.k]})
			g.NamesWithCondtions = append(g.NamesWithCondtions, seccomp.NameWithConditions{Name: n[1], Conditions: lists[(j.k+7)%len(lists)]})
		}
		p := &seccomp.Policy{DefaultAction: seccomp.ActionAllow, Syscalls: []seccomp.SyscallGroup{g, {Action: seccomp.ActionTrap, Names: []string{n[1], n[2]}}}}
		r.one("S3big/"+a.Name, a, p, engine.Options{})
	})
}

// runS3Mixed: groups that mix many unconditional names with conditional entries whose syscall numbers lie below, inside and
// above the range of the unconditional ones (a compiler that treats long name lists specially - ranges, tables, sorting -
// must not lose the conditional entries), for every count of unconditional names around small powers of two.
func runS3Mixed(r *compileRun) {
	for _, a := range refsem.Archs() {
		tab := a.SortedByNumber()
		if len(tab) < 120 {
			continue
		}
		lo, mid, hi := tab[0], tab[60], tab[len(tab)-1]
		type job struct{ k, shape int }
		var jobs []job
		for _, k := range []int{1, 2, 7, 8, 9, 15, 16, 17, 31, 32, 33, 64, 100} {
			for shape := 0; shape < 4; shape++ {
				jobs = append(jobs, job{k, shape})
			}
		}
		parallelFor(len(jobs), func(x int) {
			j := jobs[x]
			g := seccomp.SyscallGroup{Action: seccomp.ActionErrno}
			// k unconditional names numbered strictly between lo and hi, without mid
			for i := 0; len(g.Names) < j.k; i++ {
				n := tab[10+i]
				if n != mid {
					g.Names = append(g.Names, n)
				}
			}
			c1 := seccomp.ArgumentConditions{{Argument: 0, Operation: seccomp.Equal, Value: 3}}
			c2 := seccomp.ArgumentConditions{{Argument: 1, Operation: seccomp.GreaterThan, Value: 1 << 32}, {Argument: 0, Operation: seccomp.NotEqual, Value: 3}}
			switch j.shape {
			case 0:
				g.NamesWithCondtions = []seccomp.NameWithConditions{{Name: lo, Conditions: c1}, {Name: hi, Conditions: c2}}
			case 1:
				g.NamesWithCondtions = []seccomp.NameWithConditions{{Name: hi, Conditions: c1}, {Name: hi, Conditions: c2}, {Name: lo, Conditions: c2}}
			case 2:
				g.NamesWithCondtions = []seccomp.NameWithConditions{{Name: mid, Conditions: c1}, {Name: lo, Conditions: c1}}
			default:
				g.NamesWithCondtions = []seccomp.NameWithConditions{{Name: hi, Conditions: c2}}
			}
			p := &seccomp.Policy{DefaultAction: seccomp.ActionAllow, Syscalls: []seccomp.SyscallGroup{g, {Action: seccomp.ActionTrap, Names: []string{lo, mid, hi}}}}
			r.one("S3mixed/"+a.Name, a, p, engine.Options{})
		})
	}
}

// runS3Pairs: two entries for the same syscall, one condition each, over a wide operand alphabet (every pair that the
// exact partition can handle: a mask and an order constant never on the same argument word).
func runS3Pairs(r *compileRun, a *refsem.Arch, tier string) {
	n := s3Names(a)
	n2 := uint64(mustNum(a, n[2]))
	var alpha []seccomp.Condition
	for _, arg := range []uint32{0, 1, 5} {
		for _, op := range allOps {
			for _, v := range []uint64{0, 1, n2, 1 << 32, 1<<32 + n2, 1 << 58, 1 << 61, 1 << 63, ^uint64(0)} {
				alpha = append(alpha, seccomp.Condition{Argument: arg, Operation: op, Value: v})
			}
		}
	}
	isMask := func(c seccomp.Condition) bool { return c.Operation == seccomp.BitsSet || c.Operation == seccomp.BitsNotSet }
	type pr struct{ i, j int }
	var jobs []pr
	for i, ci := range alpha {
		for j, cj := range alpha {
			if ci.Argument == cj.Argument && isMask(ci) != isMask(cj) {
				continue
			}
			if ci.Argument == cj.Argument && isMask(ci) && ci.Value != cj.Value && ci.Value&cj.Value != 0 && ci.Value != ^uint64(0) && cj.Value != ^uint64(0) {
				continue
			}
			jobs = append(jobs, pr{i, j})
		}
	}
	parallelFor(len(jobs), func(x int) {
		j := jobs[x]
		g := seccomp.SyscallGroup{Action: seccomp.ActionErrno, NamesWithCondtions: []seccomp.NameWithConditions{
			{Name: n[1], Conditions: seccomp.ArgumentConditions{alpha[j.i]}},
			{Name: n[1], Conditions: seccomp.ArgumentConditions{alpha[j.j]}},
			{Name: n[2], Conditions: seccomp.ArgumentConditions{alpha[(j.i+j.j)%len(alpha)]}}}}
		p := &seccomp.Policy{DefaultAction: seccomp.ActionAllow, Syscalls: []seccomp.SyscallGroup{g, {Action: seccomp.ActionTrap, Names: []string{n[1]}}}}
		r.one("S3pairs/"+a.Name, a, p, engine.Options{})
	})
}
