package main

import (
	"sort"

	seccomp "github.com/elastic/go-seccomp-bpf"

	"verif/harness/engine"
	"verif/harness/evid"
	"verif/harness/refsem"
)

func init() { register("C04", checkC04) }

// foreignArchWords: every AUDIT_ARCH constant the kernel headers know, 0, own+-1, all ones.
func foreignArchWords(a *refsem.Arch) []uint32 {
	m := map[uint32]bool{0: true, a.ID - 1: true, a.ID + 1: true, 0xFFFFFFFF: true, a.ID ^ 0x40000000: true, a.ID ^ 0x80000000: true, a.ID & 0xffff: true}
	for _, v := range refsem.LoadOracles().AuditArch {
		m[v] = true
	}
	delete(m, a.ID)
	out := make([]uint32, 0, len(m))
	for v := range m {
		out = append(out, v)
	}
	sort.Slice(out, func(i, j int) bool { return out[i] < out[j] })
	return out
}

func checkC04(tier, replay string) int {
	if replay != "" {
		return replayCompile(replay)
	}
	ctx := evid.New("C04", tier, "exploration")
	r := newCompileRun(ctx, engine.ClsForeign)
	// S1 with every foreign architecture word
	for _, a := range refsem.Archs() {
		names := s1Names(a)
		maxG := 2
		if tier == "thorough" {
			maxG = 3
		}
		extraNr := boundaryNrs(a, numbersOf(a, names))
		fa := foreignArchWords(a)
		n := s1Size(maxG)
		parallelFor(n, func(i int) {
			r.one("S1+archs/"+a.Name, a, s1Policy(names, i), engine.Options{ExtraNr: extraNr, ExtraArch: fa})
		})
	}
	// conditional policies with every foreign architecture word (argument cells include the ones satisfying the rules)
	x := refsem.ArchByName("x86_64")
	ops := []seccomp.Operation{seccomp.Equal, seccomp.BitsSet, seccomp.GreaterThan}
	if tier == "thorough" {
		ops = allOps
	}
	fx := foreignArchWords(x)
	s := newS3(x, ops)
	feed(func(emit func(p *seccomp.Policy)) { s.policies(2, 2, emit) }, func(p *seccomp.Policy) {
		n := s3Names(x)
		r.one("S3(e<=2,c<=2)+archs/x86_64", x, p, engine.Options{ExtraArch: fx, ExtraNr: boundaryNrs(x, numbersOf(x, n))})
	})
	arm := refsem.ArchByName("arm")
	sa := newS3(arm, []seccomp.Operation{seccomp.Equal, seccomp.LessThan})
	farm := foreignArchWords(arm)
	feed(func(emit func(p *seccomp.Policy)) { sa.policies(2, 2, emit) }, func(p *seccomp.Policy) {
		r.one("S3(e<=2,c<=2)+archs/arm", arm, p, engine.Options{ExtraArch: farm})
	})
	// long programs: both encodings of the architecture jump
	runS6Policy(r, "quick")
	runS1Table(r, "quick")
	runArchJumpSweep(r)
	c04Kernel(ctx)
	r.finish("scope S1 (all architectures), S3 (<=2 entries, <=2 conditions) and the long-program scope S6 are compiled and run on the exact partition extended by every AUDIT_ARCH constant of linux/audit.h, 0, own+-1, own with bit 30/31 flipped and 0xFFFFFFFF as architecture word, and by nr in {0x3FFFFFFF, 0x40000000, 0x40000000|n for every listed n, 0x7FFFFFFF, 0x80000000, 0xFFFFFFFF}, in full product with the argument cells (including those that satisfy the rules); plus a sweep of policies whose architecture-jump distance takes every value 240..270 (names-only and with conditions) on all architectures so that both encodings of that jump and the switch at 255 are executed; only foreign/x32 events are judged here; in addition i386 system calls are issued through int $0x80 from a 64-bit child under filters loaded by the real LoadFilter (real-kernel confirmation that foreign-architecture events get the default action even when their number is listed); non-trivial = >= 2 distinct decisions")
	ctx.Assumptions = []string{"reference: first two lines of refsem.Decide (foreign arch -> default; x86_64 nr >= 0x40000000 -> ERRNO|ENOSYS)", "partition argument of DESIGN 2.4"}
	return ctx.Finish()
}

// runArchJumpSweep builds policies whose total length crosses the short/long architecture-jump switch.
func runArchJumpSweep(r *compileRun) {
	for _, a := range refsem.Archs() {
		names := a.SortedNames()
		fa := foreignArchWords(a)
		type job struct {
			k     int
			conds int
			two   bool
			def   seccomp.Action
		}
		var jobs []job
		for k := 225; k <= 275 && k <= len(names); k++ {
			for conds := 0; conds <= 3; conds++ {
				for _, def := range []seccomp.Action{seccomp.ActionErrno, seccomp.ActionKillProcess, seccomp.ActionLog} {
					jobs = append(jobs, job{k, conds, false, def}, job{k, conds, true, def})
				}
			}
		}
		parallelFor(len(jobs), func(i int) {
			j := jobs[i]
			g := seccomp.SyscallGroup{Action: seccomp.ActionAllow, Names: names[:j.k:j.k]}
			for c := 0; c < j.conds; c++ {
				g.NamesWithCondtions = append(g.NamesWithCondtions, seccomp.NameWithConditions{Name: names[len(names)-1-c], Conditions: seccomp.ArgumentConditions{{Argument: 0, Operation: seccomp.Equal, Value: uint64(c + 1)}}})
			}
			p := &seccomp.Policy{DefaultAction: j.def, Syscalls: []seccomp.SyscallGroup{g}}
			if j.two {
				p.Syscalls = append(p.Syscalls, seccomp.SyscallGroup{Action: seccomp.ActionErrno, Names: []string{names[len(names)-5]}})
			}
			out := r.one("archjump/"+a.Name, a, p, engine.Options{ExtraArch: fa, ExtraNr: boundaryNrs(a, nil)})
			if out.Prog != nil && len(out.Prog) > 2 {
				if out.Prog[2].Op == 0x05 { // ja: long form
					r.ctx.Count("archjump_long_form_programs", 1)
				} else {
					r.ctx.Count("archjump_short_form_programs", 1)
				}
				if out.Prog[1].Jt == 255 || out.Prog[1].Jf == 255 {
					r.ctx.Count("archjump_distance_exactly_255", 1)
				}
			}
		})
	}
}
