package main

import (
	seccomp "github.com/elastic/go-seccomp-bpf"

	"verif/harness/engine"
	"verif/harness/evid"
	"verif/harness/refsem"
)

func init() { register("C05", checkC05) }

func checkC05(tier, replay string) int {
	if replay != "" {
		return replayCompile(replay)
	}
	ctx := evid.New("C05", tier, "exploration")
	r := newCompileRun(ctx, engine.ClsVerifier)
	collect := newShapeCollector()
	one := func(scope string, a *refsem.Arch, p *seccomp.Policy, o engine.Options) {
		out := r.one(scope, a, p, o)
		if out.Prog != nil {
			collect.add(out.Prog)
		}
	}
	for _, a := range append(append([]*refsem.Arch{}, refsem.Archs()...), refsem.ArchX32()) {
		names := s1Names(a)
		n := s1Size(2)
		if tier == "thorough" {
			n = s1Size(3)
		}
		parallelFor(n, func(i int) { one("S1/"+a.Name, a, s1Policy(names, i), engine.Options{}) })
	}
	// group actions outside the seven named ones (user_notif, errno/trace with data bits, an arbitrary word): the return set stays closed
	runS1Raw(r)
	x := refsem.ArchByName("x86_64")
	ops := []seccomp.Operation{seccomp.Equal, seccomp.BitsNotSet, seccomp.LessOrEqual}
	if tier == "thorough" {
		ops = allOps
	}
	s := newS3(x, ops)
	feed(func(emit func(p *seccomp.Policy)) { s.policies(3, 2, emit) }, func(p *seccomp.Policy) {
		one("S3(e<=3,c<=2)/x86_64", x, p, engine.Options{SkipDecision: tier == "quick"})
	})
	// long programs (bridges)
	r6 := &compileRun{ctx: ctx, classes: r.classes, progs: r.progs, decSets: r.decSets, other: r.other, sampleN: r.sampleN}
	_ = r6
	runS6PolicyWith(func(scope string, a *refsem.Arch, p *seccomp.Policy, o engine.Options) { one(scope, a, p, o) }, tier)
	runDegenerate(one, tier)
	for _, a := range refsem.Archs() {
		for _, b := range c07Bases(a) {
			one("C07bases/"+a.Name, a, b, engine.Options{SkipDecision: true})
		}
	}
	// policies with injected defects: if a (possibly broken) compiler accepts one, what it emits must still be a valid filter
	dj := c07Jobs("quick")
	parallelFor(len(dj), func(i int) {
		if p, ok := dj[i].mutate(); ok {
			one("C07defects/"+dj[i].a.Name, dj[i].a, p, engine.Options{SkipDecision: true})
		}
	})
	// conformance of the verifier port with the real kernel
	kernelConformance(ctx, collect, tier)
	r.finish("every program returned with nil error by scopes S1, S3 (<=3 entries, <=2 conditions), S6 (bodies of every length, bridges), the C07 bases, the C07 defect-injected policies (whenever the compiler accepts one) and the degenerate scope (1-3 all-empty groups with nil/empty slices, single names, whole tables on 4 architectures and the x32 ABI (through the architecture hook), one syscall with 1..1100 single-condition lists crossing the 4096 limit, lists of 1..60 conditions) is raw-encoded with bpf.Assemble and, if <= 4096 instructions, fed to a line-by-line port of bpf_check_classic + seccomp_check_filter; its RET constants must lie in {default, group actions, ERRNO|ENOSYS on x86_64}; the port itself is replayed against the real seccomp(2) on every distinct program shape met (returns rewritten to ALLOW) and on a fixed set of invalid programs, one per rejection rule; non-trivial = >= 2 distinct decisions or, for programs not executed, counted under distinct_programs")
	ctx.Cov["distinct_nontrivial"] = int64(len(r.progs))
	ctx.Assumptions = []string{"cbpf.Check is a faithful port of the kernel verifier (validated against this kernel on every distinct shape met, see traces_validated_against_impl)", "every return is RET K (fragment check), so the syntactic set of RET constants is the set of returnable values"}
	return ctx.Finish()
}

func runDegenerate(one func(scope string, a *refsem.Arch, p *seccomp.Policy, o engine.Options), tier string) {
	for _, a := range append(append([]*refsem.Arch{}, refsem.Archs()...), refsem.ArchX32()) {
		names := a.SortedNames()
		for _, def := range allNamed {
			for ng := 1; ng <= 3; ng++ {
				for variant := 0; variant < 3; variant++ {
					p := &seccomp.Policy{DefaultAction: def}
					for g := 0; g < ng; g++ {
						grp := seccomp.SyscallGroup{Action: allNamed[(g+1)%7]}
						switch variant {
						case 1:
							grp.Names = []string{}
						case 2:
							grp.Names = []string{}
							grp.NamesWithCondtions = []seccomp.NameWithConditions{}
						}
						p.Syscalls = append(p.Syscalls, grp)
					}
					one("degenerate/all-empty/"+a.Name, a, p, engine.Options{ExtraNr: boundaryNrs(a, nil)})
				}
			}
			// empty groups around one non-empty group
			for pos := 0; pos < 3; pos++ {
				p := &seccomp.Policy{DefaultAction: def, Syscalls: make([]seccomp.SyscallGroup, 3)}
				for g := range p.Syscalls {
					p.Syscalls[g].Action = allNamed[(g+2)%7]
				}
				p.Syscalls[pos].Names = []string{names[0]}
				one("degenerate/empty-around/"+a.Name, a, p, engine.Options{})
			}
		}
		step := 1
		if tier == "quick" {
			step = 17
		}
		var idx []int
		for i := 0; i < len(names); i += step {
			idx = append(idx, i)
		}
		parallelFor(len(idx), func(k int) {
			i := idx[k]
			one("degenerate/single-name/"+a.Name, a, &seccomp.Policy{DefaultAction: seccomp.ActionErrno, Syscalls: []seccomp.SyscallGroup{{Action: seccomp.ActionAllow, Names: names[i : i+1]}}}, engine.Options{})
		})
		one("degenerate/whole-table/"+a.Name, a, &seccomp.Policy{DefaultAction: seccomp.ActionErrno, Syscalls: []seccomp.SyscallGroup{{Action: seccomp.ActionAllow, Names: names}}}, engine.Options{})
		one("degenerate/whole-table-twice/"+a.Name, a, &seccomp.Policy{DefaultAction: seccomp.ActionErrno, Syscalls: []seccomp.SyscallGroup{{Action: seccomp.ActionAllow, Names: names}, {Action: seccomp.ActionTrap, Names: names}}}, engine.Options{})
	}
	x := refsem.ArchByName("x86_64")
	// one syscall with 1..1100 single-condition lists (program length crosses 4096)
	var sizes []int
	for n := 1; n <= 1100; {
		sizes = append(sizes, n)
		switch {
		case tier == "thorough" || n < 70 || (n >= 800 && n <= 830):
			n++
		default:
			n += 13
		}
	}
	parallelFor(len(sizes), func(k int) {
		n := sizes[k]
		g := seccomp.SyscallGroup{Action: seccomp.ActionErrno, Names: []string{"close"}}
		for l := 0; l < n; l++ {
			g.NamesWithCondtions = append(g.NamesWithCondtions, seccomp.NameWithConditions{Name: "write", Conditions: seccomp.ArgumentConditions{{Argument: 0, Operation: seccomp.Equal, Value: uint64(l)}}})
		}
		g.NamesWithCondtions = append(g.NamesWithCondtions, seccomp.NameWithConditions{Name: "read", Conditions: seccomp.ArgumentConditions{{Argument: 0, Operation: seccomp.Equal, Value: 3}}})
		p := &seccomp.Policy{DefaultAction: seccomp.ActionAllow, Syscalls: []seccomp.SyscallGroup{g, {Action: seccomp.ActionTrap, Names: []string{"execve"}}}}
		one("degenerate/many-lists", x, p, engine.Options{SkipDecision: n > 200})
	})
	// one list with 1..60 conditions over all six arguments
	parallelFor(60, func(i int) {
		var l seccomp.ArgumentConditions
		for c := 0; c <= i; c++ {
			l = append(l, seccomp.Condition{Argument: uint32(c % 6), Operation: allOps[c%8], Value: uint64(c)<<29 + 1})
		}
		p := &seccomp.Policy{DefaultAction: seccomp.ActionAllow, Syscalls: []seccomp.SyscallGroup{{Action: seccomp.ActionErrno, NamesWithCondtions: []seccomp.NameWithConditions{{Name: "write", Conditions: l}, {Name: "read", Conditions: l[:1]}}}}}
		one("degenerate/long-list", x, p, engine.Options{SkipDecision: true})
	})
}
