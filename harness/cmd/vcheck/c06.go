package main

import (
	"encoding/json"
	"fmt"
	"os"
	"sync"
	"sync/atomic"

	seccomp "github.com/elastic/go-seccomp-bpf"

	"verif/harness/engine"
	"verif/harness/evid"
	"verif/harness/labelm"
	"verif/harness/refsem"
)

func init() { register("C06", checkC06) }

var (
	padsP  = []int{0, 1, 2, 253, 254, 255, 256, 257, 300, 511, 512}
	padsP1 = []int{0, 1, 254, 255, 256, 300}
	padsP2 = []int{0, 255, 256}
)

type c06Stats struct {
	programs, inputs, calls, withRetCopy, withLongJa, inserted2plus, over255 int64
}

func runLabelSpace(ctx *evid.Ctx, k int, P []int, prologues []int, st *c06Stats, lens *sync.Map) {
	runLabelSpaceKinds(ctx, k, P, prologues, []bool{false, true}, st, lens)
}

func runLabelSpaceKinds(ctx *evid.Ctx, k int, P []int, prologues []int, kinds []bool, st *c06Stats, lens *sync.Map) {
	nshard := (k + 2) * (k + 2)
	parallelFor(nshard, func(sh int) {
		labelm.EnumerateKinds(k, P, prologues, kinds, sh, nshard, func(s *labelm.Spec) {
			res, ok := labelm.Check(s)
			atomic.AddInt64(&st.programs, 1)
			atomic.AddInt64(&st.inputs, int64(res.Inputs))
			atomic.AddInt64(&st.calls, int64(res.Calls))
			if res.RetCopies > 0 {
				atomic.AddInt64(&st.withRetCopy, 1)
			}
			if res.LongJa > 0 {
				atomic.AddInt64(&st.withLongJa, 1)
			}
			if res.Inserted >= 2 {
				atomic.AddInt64(&st.inserted2plus, 1)
			}
			if res.ProgLen > 255 {
				atomic.AddInt64(&st.over255, 1)
			}
			lens.Store(res.ProgLen, true)
			if !ok {
				b, _ := json.Marshal(s)
				kind := "disagree"
				if res.Input == 0 && res.Got == 0 && res.Want == 0 {
					kind = "assemble"
				}
				ctx.Violation(fmt.Sprintf("C06:label:%s:%s", kind, string(b)),
					fmt.Sprintf("%s (input %#x: assembled returns %#x, label program returns %#x; %d label-level instructions, %d assembled)", res.Err, res.Input, res.Got, res.Want, res.LLen, res.ProgLen),
					map[string]any{"kind": "label-program", "spec": s.Clone(), "input": res.Input})
			}
		})
	})
}

func checkC06(tier, replay string) int {
	if replay != "" {
		return replayC06(replay)
	}
	ctx := evid.New("C06", tier, "model_checking")
	installHangHandler(ctx)
	st := &c06Stats{}
	var lens sync.Map
	pro := []int{1}
	runLabelSpace(ctx, 1, padsP, []int{1, 2, 7}, st, &lens)
	runLabelSpace(ctx, 2, padsP, []int{1, 3}, st, &lens)
	// distances and label counts beyond every 16-bit quantity: one slot, 65534..66000 and 140000 filler instructions (with
	// jump-pair filler that is more than 65535 labels)
	runLabelSpace(ctx, 1, []int{65534, 65535, 65536, 66000, 140000}, []int{1}, st, &lens)
	if tier == "quick" {
		runLabelSpace(ctx, 3, padsP2, pro, st, &lens)
	} else {
		runLabelSpace(ctx, 3, padsP1, pro, st, &lens)
		runLabelSpaceKinds(ctx, 4, []int{0, 256}, pro, []bool{false}, st, &lens)
	}
	ctx.Sample(map[string]any{"label_program": labelm.Spec{Slots: []labelm.Slot{{TwoWay: true, T: 3, F: 1}, {T: 4}}, Pads: []int{256, 300}, PadJumps: true, ShareLabel: false, Prologue: 1},
		"meaning": "ld; jset b0 ->RetB / ->slot1; 256 filler (short-jump pairs); jset b1 -> Ld;RetC; 300 filler; RetA; RetB; Ld; RetC  - run on all 2^3 inputs"})
	nl := 0
	lens.Range(func(_, _ any) bool { nl++; return true })
	// Space B: policies whose programs exceed 255 instructions
	r := newCompileRun(ctx, engine.ClsDecision, engine.ClsVerifier, engine.ClsReject)
	runS6Policy(r, tier)
	r.mu.Lock()
	for k, v := range r.other {
		ctx.Cov[k] = v
	}
	nprogs := len(r.progs)
	r.mu.Unlock()
	ctx.Cov["states"] = st.programs + ctx.Counter("policies")
	ctx.Cov["transitions"] = st.calls
	ctx.Cov["traces_validated_against_impl"] = st.inputs + ctx.Counter("events")
	ctx.Cov["label_programs"] = st.programs
	ctx.Cov["label_program_inputs_run"] = st.inputs
	ctx.Cov["programs_with_early_return_copy"] = st.withRetCopy
	ctx.Cov["programs_with_long_ja_bridge"] = st.withLongJa
	ctx.Cov["programs_with_two_or_more_insertions"] = st.inserted2plus
	ctx.Cov["label_programs_over_255_instructions"] = st.over255
	ctx.Cov["distinct_assembled_lengths"] = nl
	ctx.Cov["policy_level_distinct_programs"] = nprogs
	ctx.Cov["evaluations"] = st.inputs + ctx.Counter("events")
	ctx.Cov["distinct_nontrivial"] = st.withRetCopy + st.withLongJa
	ctx.Cov["rule"] = "states = complete builder-call sequences (label programs) of the grammar slot/pad/tail of DESIGN C06 (k far-capable two-way or one-way JSET jumps, targets = later jumps, returns or a load, pads from the distance alphabet around 255/256/512 and, for one slot, 65534..66000 and 140000 (beyond every 16-bit index and label count), filler of loads or of short jumps, shared or separate labels) plus policy-level long programs; transitions = builder calls applied to the real Program; every state is assembled by the real Program.Assemble and executed on all 2^(k+1) inputs against the abstract label machine (traces_validated_against_impl); distinct_nontrivial = label programs in which at least one bridge (early-return copy or long ja) was inserted"
	ctx.Assumptions = []string{"abstract label machine (labelm.RunAbstract) is the meaning of a label program", "backward jumps, unset labels and two-way jumps whose targets coincide are outside the property's domain and not generated"}
	return ctx.Finish()
}

// runS6Policy: conditional bodies of every length, in several positions.
func runS6Policy(r *compileRun, tier string) {
	runS6PolicyWith(func(scope string, a *refsem.Arch, p *seccomp.Policy, o engine.Options) { r.one(scope, a, p, o) }, tier)
}

func runS6PolicyWith(one func(scope string, a *refsem.Arch, p *seccomp.Policy, o engine.Options), tier string) {
	a := refsem.ArchByName("x86_64")
	n := s3Names(a) // read write execve
	// 4-instruction conditions all test the low word of argument 0 against distinct values and the 5-instruction
	// ones the high word of argument 1, so that the exact cell product stays small however long the body is.
	cond4 := func(i int) seccomp.Condition {
		return seccomp.Condition{Argument: 0, Operation: seccomp.Equal, Value: uint64(i)}
	}
	cond5 := func(i int) seccomp.Condition {
		return seccomp.Condition{Argument: 1, Operation: seccomp.GreaterThan, Value: uint64(i) << 32}
	}
	// lists(L): single-condition lists; total body ~ 4*a + 5*b instructions
	type job struct {
		nlists, n5, pos, follow, groups int
	}
	var jobs []job
	maxLists := 150
	stepL := 1
	if tier == "quick" {
		stepL = 3
	}
	for nl := 1; nl <= maxLists; nl += stepL {
		for _, n5 := range []int{0, 1, 2, 3} {
			if n5 > nl {
				continue
			}
			for pos := 0; pos < 3; pos++ {
				for follow := 0; follow < 2; follow++ {
					for groups := 1; groups <= 2; groups++ {
						jobs = append(jobs, job{nl, n5, pos, follow, groups})
					}
				}
			}
		}
	}
	parallelFor(len(jobs), func(i int) {
		j := jobs[i]
		g := seccomp.SyscallGroup{Action: seccomp.ActionErrno}
		switch j.pos {
		case 1:
			g.Names = []string{"close"}
		case 2:
			g.NamesWithCondtions = append(g.NamesWithCondtions, seccomp.NameWithConditions{Name: "open", Conditions: seccomp.ArgumentConditions{{Argument: 0, Operation: seccomp.Equal, Value: 3}}})
		}
		for l := 0; l < j.nlists; l++ {
			c := cond4(l + 1)
			if l < j.n5 {
				c = cond5(l + 1)
			}
			g.NamesWithCondtions = append(g.NamesWithCondtions, seccomp.NameWithConditions{Name: n[1], Conditions: seccomp.ArgumentConditions{c}})
		}
		if j.follow == 1 {
			g.NamesWithCondtions = append(g.NamesWithCondtions, seccomp.NameWithConditions{Name: n[0], Conditions: seccomp.ArgumentConditions{{Argument: 0, Operation: seccomp.Equal, Value: 7}}})
		}
		def := []seccomp.Action{seccomp.ActionAllow, seccomp.ActionErrno, seccomp.ActionKillProcess, seccomp.ActionLog}[i%4]
		if def == seccomp.ActionErrno {
			g.Action = seccomp.ActionKillThread
		}
		p := &seccomp.Policy{DefaultAction: def, Syscalls: []seccomp.SyscallGroup{g}}
		if j.groups == 2 {
			p.Syscalls = append(p.Syscalls, seccomp.SyscallGroup{Action: seccomp.ActionTrap, Names: []string{n[2], "close"}, NamesWithCondtions: []seccomp.NameWithConditions{
				{Name: n[1], Conditions: seccomp.ArgumentConditions{{Argument: 0, Operation: seccomp.Equal, Value: 99}}}}})
		}
		one("S6/lists", a, p, engine.Options{MaxEvents: 1 << 22})
	})
	// one list with 1..70 conditions (far noMatch / far action)
	parallelFor(70, func(i int) {
		var l seccomp.ArgumentConditions
		for c := 0; c <= i; c++ {
			arg := uint32(c % 2)
			v := uint64(arg) + 1
			// every condition is satisfied by actual == v, so the list as a whole is satisfiable
			cs := []seccomp.Condition{{Argument: arg, Operation: seccomp.Equal, Value: v}, {Argument: arg, Operation: seccomp.GreaterOrEqual, Value: v},
				{Argument: arg, Operation: seccomp.LessOrEqual, Value: v}, {Argument: arg, Operation: seccomp.BitsSet, Value: v},
				{Argument: arg, Operation: seccomp.GreaterThan, Value: v - 1}, {Argument: arg, Operation: seccomp.LessThan, Value: v + 1},
				{Argument: arg, Operation: seccomp.NotEqual, Value: v + 5}, {Argument: arg, Operation: seccomp.BitsNotSet, Value: v << 8}}
			l = append(l, cs[(c/2)%8])
		}
		for _, follow := range []bool{false, true} {
			g := seccomp.SyscallGroup{Action: seccomp.ActionErrno, Names: []string{"close"}, NamesWithCondtions: []seccomp.NameWithConditions{{Name: n[1], Conditions: l}}}
			if follow {
				g.NamesWithCondtions = append(g.NamesWithCondtions, seccomp.NameWithConditions{Name: n[0], Conditions: seccomp.ArgumentConditions{{Argument: 0, Operation: seccomp.Equal, Value: 7}}})
			}
			def := []seccomp.Action{seccomp.ActionKillProcess, seccomp.ActionErrno, seccomp.ActionTrap}[i%3]
			if def == seccomp.ActionErrno {
				g.Action = seccomp.ActionLog
			}
			p := &seccomp.Policy{DefaultAction: def, Syscalls: []seccomp.SyscallGroup{g, {Action: seccomp.ActionAllow, Names: []string{n[2]}}}}
			one("S6/longlist", a, p, engine.Options{MaxEvents: 1 << 24})
		}
	})
}

func replayC06(path string) int {
	b, err := os.ReadFile(path)
	if err != nil {
		fmt.Fprintln(os.Stderr, err)
		return 2
	}
	var f struct {
		Key  string `json:"key"`
		What string `json:"what"`
		Case struct {
			Kind string       `json:"kind"`
			Spec *labelm.Spec `json:"spec"`
		} `json:"case"`
	}
	if err := json.Unmarshal(b, &f); err != nil {
		fmt.Fprintln(os.Stderr, err)
		return 2
	}
	if f.Case.Kind != "label-program" {
		return replayCompile(path)
	}
	res, ok := labelm.Check(f.Case.Spec)
	fmt.Printf("label program %s\nresult: %+v\n", mustJSON(f.Case.Spec), res)
	if !ok {
		fmt.Println("REPRODUCED")
		return 1
	}
	fmt.Println("not reproduced (property holds on this case)")
	return 0
}
