package main

import (
	"fmt"
	"strings"

	seccomp "github.com/elastic/go-seccomp-bpf"
	"github.com/elastic/go-seccomp-bpf/arch"

	"verif/harness/engine"
	"verif/harness/evid"
	"verif/harness/refsem"
)

func init() { register("C07", checkC07) }

func clonePolicy(p *seccomp.Policy) *seccomp.Policy {
	c := &seccomp.Policy{DefaultAction: p.DefaultAction}
	if p.Syscalls != nil {
		c.Syscalls = make([]seccomp.SyscallGroup, len(p.Syscalls))
	}
	for i, g := range p.Syscalls {
		ng := seccomp.SyscallGroup{Action: g.Action}
		if g.Names != nil {
			ng.Names = append([]string{}, g.Names...)
		}
		for _, e := range g.NamesWithCondtions {
			ne := seccomp.NameWithConditions{Name: e.Name}
			if e.Conditions != nil {
				ne.Conditions = append(seccomp.ArgumentConditions{}, e.Conditions...)
			}
			ng.NamesWithCondtions = append(ng.NamesWithCondtions, ne)
		}
		c.Syscalls[i] = ng
	}
	return c
}

// c07Bases returns valid base policies for an architecture.
func c07Bases(a *refsem.Arch) []*seccomp.Policy {
	n := a.SortedNames()
	lo, mid, hi := n[0], n[len(n)/2], n[len(n)-1]
	m2, m3 := n[len(n)/3], n[len(n)/4]
	eq := func(arg uint32, v uint64) seccomp.Condition {
		return seccomp.Condition{Argument: arg, Operation: seccomp.Equal, Value: v}
	}
	bases := []*seccomp.Policy{
		{DefaultAction: seccomp.ActionAllow, Syscalls: []seccomp.SyscallGroup{{Action: seccomp.ActionErrno, Names: []string{lo, mid, hi}}}},
		{DefaultAction: seccomp.ActionKillProcess, Syscalls: []seccomp.SyscallGroup{{Action: seccomp.ActionAllow, Names: []string{lo, mid}}, {Action: seccomp.ActionErrno, Names: []string{hi, mid}}}},
		{DefaultAction: seccomp.ActionAllow, Syscalls: []seccomp.SyscallGroup{{Action: seccomp.ActionErrno, NamesWithCondtions: []seccomp.NameWithConditions{
			{Name: lo, Conditions: seccomp.ArgumentConditions{eq(0, 1)}},
			{Name: mid, Conditions: seccomp.ArgumentConditions{{Argument: 5, Operation: seccomp.BitsSet, Value: 1 << 40}, {Argument: 1, Operation: seccomp.LessThan, Value: 9}}}}}}},
		{DefaultAction: seccomp.ActionErrno, Syscalls: []seccomp.SyscallGroup{{Action: seccomp.ActionAllow, Names: []string{lo, m2}, NamesWithCondtions: []seccomp.NameWithConditions{
			{Name: mid, Conditions: seccomp.ArgumentConditions{eq(2, 3), {Argument: 3, Operation: seccomp.GreaterOrEqual, Value: 1 << 33}}},
			{Name: hi, Conditions: seccomp.ArgumentConditions{{Argument: 4, Operation: seccomp.NotEqual, Value: 0}}}}},
			{Action: seccomp.ActionTrap, Names: []string{mid}}}},
		{DefaultAction: seccomp.ActionAllow, Syscalls: []seccomp.SyscallGroup{{Action: seccomp.ActionKillThread, Names: []string{m3}, NamesWithCondtions: []seccomp.NameWithConditions{
			{Name: mid, Conditions: seccomp.ArgumentConditions{eq(0, 1)}},
			{Name: lo, Conditions: seccomp.ArgumentConditions{{Argument: 0, Operation: seccomp.BitsNotSet, Value: 0xff}}},
			{Name: mid, Conditions: seccomp.ArgumentConditions{eq(0, 2), eq(1, 2)}},
			{Name: mid, Conditions: seccomp.ArgumentConditions{{Argument: 1, Operation: seccomp.LessOrEqual, Value: 5}}}}}}},
	}
	// a group whose action equals the default action (it still has to be validated and still shadows later groups)
	bases = append(bases, &seccomp.Policy{DefaultAction: seccomp.ActionAllow, Syscalls: []seccomp.SyscallGroup{
		{Action: seccomp.ActionAllow, Names: []string{lo, mid}, NamesWithCondtions: []seccomp.NameWithConditions{{Name: hi, Conditions: seccomp.ArgumentConditions{eq(1, 7)}}}},
		{Action: seccomp.ActionErrno, Names: []string{mid, hi}}}})
	// trailing group and only group whose action equals the default action
	bases = append(bases, &seccomp.Policy{DefaultAction: seccomp.ActionAllow, Syscalls: []seccomp.SyscallGroup{
		{Action: seccomp.ActionErrno, Names: []string{lo, mid}},
		{Action: seccomp.ActionAllow, Names: []string{mid, hi}, NamesWithCondtions: []seccomp.NameWithConditions{{Name: m2, Conditions: seccomp.ArgumentConditions{eq(2, 9)}}}}}})
	bases = append(bases, &seccomp.Policy{DefaultAction: seccomp.ActionErrno, Syscalls: []seccomp.SyscallGroup{
		{Action: seccomp.ActionErrno, Names: []string{lo, hi}, NamesWithCondtions: []seccomp.NameWithConditions{{Name: mid, Conditions: seccomp.ArgumentConditions{eq(0, 1), eq(5, 2)}}}}}})
	// a long one: 100 names + conditional entries -> program > 255 instructions
	long := &seccomp.Policy{DefaultAction: seccomp.ActionAllow, Syscalls: []seccomp.SyscallGroup{{Action: seccomp.ActionErrno}}}
	for i := 10; i < 110 && i < len(n); i++ {
		long.Syscalls[0].Names = append(long.Syscalls[0].Names, n[i])
	}
	for i := 0; i < 50; i++ {
		long.Syscalls[0].NamesWithCondtions = append(long.Syscalls[0].NamesWithCondtions, seccomp.NameWithConditions{Name: n[i%4], Conditions: seccomp.ArgumentConditions{eq(uint32(i%6), uint64(i))}})
	}
	return append(bases, long)
}

type nameSlot struct {
	g, i int
	cond bool
}
type condSlot struct{ g, e, c int }

func nameSlots(p *seccomp.Policy) (s []nameSlot) {
	for g := range p.Syscalls {
		for i := range p.Syscalls[g].Names {
			s = append(s, nameSlot{g, i, false})
		}
		for i := range p.Syscalls[g].NamesWithCondtions {
			s = append(s, nameSlot{g, i, true})
		}
	}
	return
}
func condSlots(p *seccomp.Policy) (s []condSlot) {
	for g := range p.Syscalls {
		for e := range p.Syscalls[g].NamesWithCondtions {
			for c := range p.Syscalls[g].NamesWithCondtions[e].Conditions {
				s = append(s, condSlot{g, e, c})
			}
		}
	}
	return
}
func setName(p *seccomp.Policy, s nameSlot, v string) {
	if s.cond {
		p.Syscalls[s.g].NamesWithCondtions[s.i].Name = v
	} else {
		p.Syscalls[s.g].Names[s.i] = v
	}
}
func getName(p *seccomp.Policy, s nameSlot) string {
	if s.cond {
		return p.Syscalls[s.g].NamesWithCondtions[s.i].Name
	}
	return p.Syscalls[s.g].Names[s.i]
}

// a defect is a labelled mutation of a clone of the base
type defect struct {
	label string
	apply func(p *seccomp.Policy)
}

func foreignName(a *refsem.Arch) string {
	for _, b := range refsem.Archs() {
		if b == a {
			continue
		}
		for _, n := range b.SortedNames() {
			if _, ok := a.Info.SyscallNames[n]; !ok {
				if _, ok2 := a.Number(n); !ok2 {
					return n
				}
			}
		}
	}
	return "no_such_syscall"
}

func c07Defects(a *refsem.Arch, base *seccomp.Policy, limitSlots int) []defect {
	var ds []defect
	for _, v := range []seccomp.Action{1, 0x12345, seccomp.ActionUserNotify, seccomp.ActionErrno | 1, 0xFFFFFFFF, seccomp.ActionAllow + 1} {
		v := v
		ds = append(ds, defect{fmt.Sprintf("D1 default=%#x", uint32(v)), func(p *seccomp.Policy) { p.DefaultAction = v }})
	}
	ds = append(ds, defect{"D2 nil groups", func(p *seccomp.Policy) { p.Syscalls = nil }})
	ds = append(ds, defect{"D2 empty groups slice", func(p *seccomp.Policy) { p.Syscalls = []seccomp.SyscallGroup{} }})
	ns := nameSlots(base)
	if limitSlots > 0 && len(ns) > limitSlots {
		// first, last and evenly spaced slots
		var sel []nameSlot
		for i := 0; i < limitSlots; i++ {
			sel = append(sel, ns[i*(len(ns)-1)/(limitSlots-1)])
		}
		ns = sel
	}
	fn := foreignName(a)
	for _, s := range ns {
		s := s
		orig := getName(base, s)
		bad := []string{"", strings.ToUpper(orig), orig + " ", " " + orig, fn, strings.Repeat("x", 70000), orig + "\x00", "\x00" + orig, orig + "\n", "no_such_syscall"}
		for bi, b := range bad {
			b := b
			if _, ok := a.Number(b); ok {
				continue
			}
			ds = append(ds, defect{fmt.Sprintf("D3 unknown name #%d at %+v", bi, s), func(p *seccomp.Policy) { setName(p, s, b) }})
		}
	}
	// D4 duplicates among Names, every ordered pair, plus insertion at every position
	for g := range base.Syscalls {
		g := g
		names := base.Syscalls[g].Names
		for i := range names {
			for j := range names {
				if i == j {
					continue
				}
				i, j := i, j
				if limitSlots > 0 && (i > 3 && i < len(names)-2 || j > 3 && j < len(names)-2) {
					continue
				}
				ds = append(ds, defect{fmt.Sprintf("D4 duplicate name g%d %d->%d", g, i, j), func(p *seccomp.Policy) { p.Syscalls[g].Names[j] = p.Syscalls[g].Names[i] }})
			}
		}
		for i := range names {
			for pos := 0; pos <= len(names); pos++ {
				i, pos := i, pos
				if limitSlots > 0 && (i > 2 && i < len(names)-2 || pos > 2 && pos < len(names)-1) {
					continue
				}
				ds = append(ds, defect{fmt.Sprintf("D4 duplicate inserted g%d name%d at %d", g, i, pos), func(p *seccomp.Policy) {
					nn := append([]string{}, p.Syscalls[g].Names[:pos]...)
					nn = append(nn, p.Syscalls[g].Names[i])
					p.Syscalls[g].Names = append(nn, p.Syscalls[g].Names[pos:]...)
				}})
			}
		}
		// D5 conditional + unconditional
		for e := range base.Syscalls[g].NamesWithCondtions {
			e := e
			if limitSlots > 0 && e > 2 && e < len(base.Syscalls[g].NamesWithCondtions)-2 {
				continue
			}
			for i := range names {
				i := i
				if limitSlots > 0 && i > 2 && i < len(names)-2 {
					continue
				}
				ds = append(ds, defect{fmt.Sprintf("D5 cond entry g%d e%d renamed to unconditional name %d", g, e, i), func(p *seccomp.Policy) {
					p.Syscalls[g].NamesWithCondtions[e].Name = p.Syscalls[g].Names[i]
				}})
			}
			for pos := 0; pos <= len(names); pos++ {
				pos := pos
				if limitSlots > 0 && pos > 2 && pos < len(names)-1 {
					continue
				}
				ds = append(ds, defect{fmt.Sprintf("D5 cond entry g%d e%d also listed unconditionally at %d", g, e, pos), func(p *seccomp.Policy) {
					nn := append([]string{}, p.Syscalls[g].Names[:pos]...)
					nn = append(nn, p.Syscalls[g].NamesWithCondtions[e].Name)
					p.Syscalls[g].Names = append(nn, p.Syscalls[g].Names[pos:]...)
				}})
			}
		}
	}
	cs := condSlots(base)
	if limitSlots > 0 && len(cs) > limitSlots {
		var sel []condSlot
		for i := 0; i < limitSlots; i++ {
			sel = append(sel, cs[i*(len(cs)-1)/(limitSlots-1)])
		}
		cs = sel
	}
	for _, s := range cs {
		s := s
		for _, idx := range []uint32{6, 7, 8, 255, 256, 1 << 31, 1<<32 - 1} {
			idx := idx
			ds = append(ds, defect{fmt.Sprintf("D6 argument index %d at %+v", idx, s), func(p *seccomp.Policy) { p.Syscalls[s.g].NamesWithCondtions[s.e].Conditions[s.c].Argument = idx }})
		}
		for _, op := range []string{"", "equal", "Foo", "Equal ", "EQUAL", "Equals", "BitsSet\x00", "==", "MaskedEqual"} {
			op := op
			ds = append(ds, defect{fmt.Sprintf("D8 operation %q at %+v", op, s), func(p *seccomp.Policy) {
				p.Syscalls[s.g].NamesWithCondtions[s.e].Conditions[s.c].Operation = seccomp.Operation(op)
			}})
		}
	}
	return ds
}

var tablelessInfos = []*arch.Info{arch.PPC, arch.PPC64, arch.PPC64LE, arch.S390, arch.S390X, arch.MIPS, arch.MIPSEL, arch.MIPS64, arch.MIPS64N32, arch.MIPSEL64, arch.MIPSEL64N32}

type c07Job struct {
	a     *refsem.Arch
	base  *seccomp.Policy
	d1    *defect
	d2    *defect
	label string
}

func c07Jobs(tier string) []c07Job {
	var jobs []c07Job
	for _, a := range refsem.Archs() {
		for bi, b := range c07Bases(a) {
			limit := 0
			if bi == 8 {
				limit = 6
			}
			ds := c07Defects(a, b, limit)
			jobs = append(jobs, c07Job{a: a, base: b, label: fmt.Sprintf("base%d", bi)})
			for i := range ds {
				jobs = append(jobs, c07Job{a: a, base: b, d1: &ds[i], label: fmt.Sprintf("base%d", bi)})
			}
			// pairs of defects (different kinds) on the smaller bases
			if bi < 8 && (tier == "thorough" || a.Name == "x86_64") {
				stride := 1
				if tier == "quick" {
					stride = 7
				}
				for i := 0; i < len(ds); i += stride {
					for j := i + 1; j < len(ds); j += stride {
						if ds[i].label[:2] == ds[j].label[:2] {
							continue
						}
						jobs = append(jobs, c07Job{a: a, base: b, d1: &ds[i], d2: &ds[j], label: fmt.Sprintf("base%d-pair", bi)})
					}
				}
			}
		}
	}
	return jobs
}

// mutate applies the job's defects to a clone of its base; ok=false if the second mutation no longer applies.
func (j c07Job) mutate() (p *seccomp.Policy, ok bool) {
	p = clonePolicy(j.base)
	ok = true
	func() {
		defer func() {
			if recover() != nil {
				ok = false
			}
		}()
		if j.d1 != nil {
			j.d1.apply(p)
		}
		if j.d2 != nil {
			j.d2.apply(p)
		}
	}()
	return
}

func checkC07(tier, replay string) int {
	if replay != "" {
		return replayCompile(replay)
	}
	ctx := evid.New("C07", tier, "exploration")
	r := newCompileRun(ctx, engine.ClsAccept, engine.ClsReject, engine.ClsPanic, engine.ClsErrShape, engine.ClsDecision, engine.ClsForeign)
	jobs := c07Jobs(tier)
	parallelFor(len(jobs), func(i int) {
		j := jobs[i]
		p := clonePolicy(j.base)
		desc := "defect-free base"
		ok := true
		func() {
			defer func() {
				if recover() != nil {
					ok = false // the second mutation of a pair no longer applies (slot removed by the first)
				}
			}()
			if j.d1 != nil {
				j.d1.apply(p)
				desc = j.d1.label
			}
			if j.d2 != nil {
				j.d2.apply(p)
				desc += " + " + j.d2.label
			}
		}()
		if !ok {
			return
		}
		if j.d1 != nil {
			if v, _ := refsem.Valid(j.a, p); v != refsem.MustReject {
				ctx.Count("mutations_that_left_policy_valid", 1)
			} else {
				ctx.Count("defective_policies", 1)
			}
		}
		_ = desc
		r.one("C07/"+j.label, j.a, p, engine.Options{SkipDecision: true})
		if j.d1 != nil && j.d2 == nil {
			// the same defect injected into a policy value that was assembled successfully before (the defect-free base)
			r.one("C07/"+j.label+"/after-valid-assemble", j.a, p, engine.Options{SkipDecision: true, Prior: clonePolicy(j.base)})
		}
	})
	// D7: architectures without tables, through the hook and through GetInfo
	for _, info := range tablelessInfos {
		for _, a := range refsem.Archs()[:1] {
			for bi, b := range c07Bases(a) {
				cp := clonePolicy(b)
				seccomp.VerifSetArch(cp, info)
				var insts any
				var err error
				var pan any
				func() {
					defer func() { pan = recover() }()
					var x []any
					_ = x
					res, e := cp.Assemble()
					err = e
					if res != nil {
						insts = res
					}
				}()
				ctx.Count("tableless_arch_compilations", 1)
				if pan != nil || err == nil || insts != nil {
					ctx.Violation(fmt.Sprintf("C07:tableless:%s:base%d", info.Name, bi), fmt.Sprintf("policy compiled for table-less architecture %s: err=%v panic=%v", info.Name, err, pan), map[string]any{"arch_info": info.Name, "base": bi})
				}
			}
		}
		for _, nm := range []string{info.Name, strings.ToUpper(info.Name)} {
			got, err := arch.GetInfo(nm)
			ctx.Count("tableless_getinfo", 1)
			if err == nil || got != nil {
				ctx.Violation("C07:getinfo:"+nm, "GetInfo("+nm+") of a table-less architecture did not fail", map[string]any{"name": nm})
			}
		}
	}
	// acceptance obligations: every defect-free policy of the small scopes must compile
	acceptanceScopes(r, tier)
	r.finish("8 defect kinds (unknown default action, no groups, unknown name in 10 spellings, duplicate name at every ordered pair / insertion point, conditional+unconditional at every pairing, argument index > 5, unimplemented operation in 9 spellings, table-less architecture) injected at every position of 9 valid base policies (incl. leading, trailing and only groups whose action equals the default) on 4 architectures, plus pairs of defects, each single defect also injected into a policy value that had been assembled successfully before; oracle: error and nil program and no panic; every defect-free policy (bases, varied valid forms, scopes S1<=2 groups and S3 small) must be accepted; accepted policies outside both sets (empty condition list) must still decide like the reference, i.e. never drop a rule; non-trivial = accepted policies with >= 2 decisions (the rejected ones are counted under counters.defective_policies)")
	ctx.Cov["distinct_nontrivial"] = r.nontriv + ctx.Counter("defective_policies")
	ctx.Assumptions = []string{"refsem.Valid encodes the defect list of the statement; policies with an empty condition list are in neither set and only required to be compiled faithfully if accepted"}
	return ctx.Finish()
}

func acceptanceScopes(r *compileRun, tier string) {
	for _, a := range refsem.Archs() {
		names := s1Names(a)
		n := s1Size(2)
		parallelFor(n, func(i int) {
			r.one("accept/S1/"+a.Name, a, s1Policy(names, i), engine.Options{SkipDecision: true})
		})
		// varied valid forms
		all := a.SortedNames()
		forms := []*seccomp.Policy{
			{DefaultAction: seccomp.ActionAllow, Syscalls: []seccomp.SyscallGroup{{Action: seccomp.ActionErrno, Names: nil}}},
			{DefaultAction: seccomp.ActionAllow, Syscalls: []seccomp.SyscallGroup{{Action: seccomp.ActionErrno, Names: []string{}}, {Action: 0x1234}}},
			{DefaultAction: seccomp.ActionLog, Syscalls: []seccomp.SyscallGroup{{Action: seccomp.ActionUserNotify, Names: all}}},
			{DefaultAction: seccomp.ActionTrace, Syscalls: []seccomp.SyscallGroup{{Action: seccomp.ActionTrace, Names: all[:1]}, {Action: seccomp.ActionTrace, Names: all[:1]}, {Action: seccomp.ActionLog, Names: all}}},
		}
		var many seccomp.SyscallGroup
		many.Action = seccomp.ActionErrno
		for arg := uint32(0); arg < 6; arg++ {
			for _, op := range allOps {
				for _, v := range []uint64{0, 1<<64 - 1} {
					many.NamesWithCondtions = append(many.NamesWithCondtions, seccomp.NameWithConditions{Name: all[int(arg)%len(all)], Conditions: seccomp.ArgumentConditions{{Argument: arg, Operation: op, Value: v}}})
				}
			}
		}
		forms = append(forms, &seccomp.Policy{DefaultAction: seccomp.ActionAllow, Syscalls: []seccomp.SyscallGroup{many}})
		// lists of many conditions: every count 1..16, arguments repeated (range checks on several arguments), and one list of 40
		for _, cnt := range []int{1, 2, 3, 4, 5, 6, 7, 8, 9, 10, 11, 12, 13, 14, 15, 16, 40} {
			var l seccomp.ArgumentConditions
			for i := 0; i < cnt; i++ {
				op := seccomp.GreaterOrEqual
				if i%2 == 1 {
					op = seccomp.LessOrEqual
				}
				l = append(l, seccomp.Condition{Argument: uint32(i/2) % 6, Operation: op, Value: uint64(10 + 100*(i%2) + i)})
			}
			forms = append(forms, &seccomp.Policy{DefaultAction: seccomp.ActionAllow, Syscalls: []seccomp.SyscallGroup{{Action: seccomp.ActionErrno, NamesWithCondtions: []seccomp.NameWithConditions{{Name: all[0], Conditions: l}}}}})
		}
		for _, f := range forms {
			r.one("accept/forms/"+a.Name, a, f, engine.Options{SkipDecision: true})
		}
	}
	x := refsem.ArchByName("x86_64")
	// the acceptance boundary: defect-free policies compiling to exactly L instructions, L = 4088..4096 (and beyond, where
	// either verdict is fine): 20 groups of 200 names (202 instructions each) + x86_64 prologue (6) + one group of L-4048 names
	{
		all := x.SortedNames()
		for L := 4088; L <= 4100; L++ {
			p := &seccomp.Policy{DefaultAction: seccomp.ActionErrno}
			for g := 0; g < 20; g++ {
				p.Syscalls = append(p.Syscalls, seccomp.SyscallGroup{Action: seccomp.ActionAllow, Names: all[g : g+200 : g+200]})
			}
			p.Syscalls = append(p.Syscalls, seccomp.SyscallGroup{Action: seccomp.ActionLog, Names: all[100 : 100+L-4048]})
			out := r.one(fmt.Sprintf("accept/size-%d", L), x, p, engine.Options{SkipDecision: true})
			if out.Prog != nil && len(out.Prog) != L {
				r.ctx.Capped(fmt.Sprintf("size-boundary construction gave %d instructions instead of %d", len(out.Prog), L))
			}
			if L > 4096 && !out.Accepted {
				r.ctx.Count("oversize_policies_rejected_by_the_compiler", 1)
			}
		}
	}
	ops := []seccomp.Operation{seccomp.Equal, seccomp.BitsSet}
	if tier == "thorough" {
		ops = allOps
	}
	s := newS3(x, ops)
	feed(func(emit func(p *seccomp.Policy)) { s.policies(2, 2, emit) }, func(p *seccomp.Policy) {
		r.one("accept/S3/x86_64", x, p, engine.Options{SkipDecision: true})
	})
	// entries with empty condition lists: alone, merged before/after a non-empty list, in every position
	n := s3Names(x)
	empty := seccomp.NameWithConditions{Name: n[1]}
	emptyNonNil := seccomp.NameWithConditions{Name: n[1], Conditions: seccomp.ArgumentConditions{}}
	full := seccomp.NameWithConditions{Name: n[1], Conditions: seccomp.ArgumentConditions{{Argument: 0, Operation: seccomp.Equal, Value: 5}}}
	other := seccomp.NameWithConditions{Name: n[2], Conditions: seccomp.ArgumentConditions{{Argument: 1, Operation: seccomp.Equal, Value: 6}}}
	for _, e := range []seccomp.NameWithConditions{empty, emptyNonNil} {
		seqs := [][]seccomp.NameWithConditions{{e}, {e, full}, {full, e}, {other, e}, {e, other}, {full, e, other}, {other, full, e}, {full, other, e}, {e, e}, {full, e, full}}
		for _, sq := range seqs {
			for _, names := range [][]string{nil, {n[0]}} {
				p := &seccomp.Policy{DefaultAction: seccomp.ActionAllow, Syscalls: []seccomp.SyscallGroup{{Action: seccomp.ActionErrno, Names: names, NamesWithCondtions: sq}, {Action: seccomp.ActionTrap, Names: []string{n[1]}}}}
				r.one("emptylist/x86_64", x, p, engine.Options{})
			}
		}
	}
}
