package main

import (
	"fmt"
	"hash/crc32"
	"os"
	"sync/atomic"
	"syscall"

	seccomp "github.com/elastic/go-seccomp-bpf"

	"verif/harness/cbpf"
	"verif/harness/engine"
	"verif/harness/evid"
	"verif/harness/refsem"
)

func init() { register("C08", checkC08) }

// syscalls the Go runtime itself never issues (getpid/gettid are used for preemption signals)
var probeNames = []string{"getpgrp", "getppid", "getuid", "geteuid", "getgid", "getegid"}

type c08Job struct {
	label  string
	pol    *seccomp.Policy
	flags  uint32
	nnp    bool
	unpriv bool // run the child as uid 65534 (a load without no_new_privs is then expected to fail)
}

func hashInsns(p []cbpf.Insn) string {
	sf := make([]syscall.SockFilter, len(p))
	for i, r := range p {
		sf[i] = syscall.SockFilter{Code: r.Op, Jt: r.Jt, Jf: r.Jf, K: r.K}
	}
	return hashSock(sf)
}

// c08Events: P x every cell of the argument words the policy or its program mentions.
func c08Events(a *refsem.Arch, p *seccomp.Policy, prog []cbpf.Insn, max int) ([]cbpf.Event, bool) {
	var c refsem.Consts
	c.AddPolicy(a, p, false)
	if err := c.AddProgram(prog); err != nil {
		return nil, false
	}
	prod := c.Product(0x11111111)
	prod.Words[1] = []uint32{a.ID}
	var nrs []uint32
	for _, n := range probeNames {
		nrs = append(nrs, mustNum(a, n))
	}
	prod.Words[0] = nrs
	prod.Words[2], prod.Words[3] = []uint32{0}, []uint32{0}
	if prod.Size() > uint64(max) {
		return nil, false
	}
	var evs []cbpf.Event
	prod.Each(func(d *cbpf.Data) bool {
		evs = append(evs, refsem.FromWords(d, false))
		return true
	})
	return evs, prod.Exact
}

func c08Policies(a *refsem.Arch, tier string) []c08Job {
	var jobs []c08Job
	acts := []seccomp.Action{seccomp.ActionErrno, seccomp.ActionAllow, seccomp.ActionKillProcess, seccomp.ActionLog}
	P := probeNames
	// whole table minus P as an allow group (long program on the real kernel), default errno
	var rest []string
	inP := map[string]bool{}
	for _, n := range P {
		inP[n] = true
	}
	for _, n := range a.SortedNames() {
		if !inP[n] {
			rest = append(rest, n)
		}
	}
	add := func(label string, groups []seccomp.SyscallGroup, longDefault bool, flags uint32, nnp bool) {
		p := &seccomp.Policy{DefaultAction: seccomp.ActionAllow}
		if longDefault {
			p.DefaultAction = seccomp.ActionErrno
			p.Syscalls = append(p.Syscalls, groups...)
			p.Syscalls = append(p.Syscalls, seccomp.SyscallGroup{Action: seccomp.ActionAllow, Names: rest})
		} else {
			p.Syscalls = groups
		}
		jobs = append(jobs, c08Job{label, p, flags, nnp, len(jobs)%3 == 1})
	}
	subsets := [][]string{{P[1]}, {P[2], P[3]}, P, {P[5], P[0]}}
	n := 0
	for _, act := range acts {
		for _, sub := range subsets {
			for _, long := range []bool{false, true} {
				n++
				add("names/1group", []seccomp.SyscallGroup{{Action: act, Names: sub}}, long, uint32(n%2), n%4 < 2)
			}
		}
	}
	for _, a1 := range acts {
		for _, a2 := range acts {
			if a1 == a2 {
				continue
			}
			n++
			add("names/2groups", []seccomp.SyscallGroup{{Action: a1, Names: []string{P[1], P[2]}}, {Action: a2, Names: []string{P[2], P[3], P[4]}}}, n%3 == 0, uint32(n%2), n%4 < 2)
		}
	}
	// single conditions: every op x every argument x boundary operands
	operands := []uint64{0, 1, 1<<31 - 1, 1 << 31, 1<<32 - 1, 1 << 32, 1<<32 + 1, 1<<63 - 1, 1 << 63, 1<<64 - 1, 0x0102030405060708, 0xAAAAAAAA55555555}
	for oi, op := range allOps {
		for arg := uint32(0); arg < 6; arg++ {
			for vi, v := range operands {
				if tier == "quick" && (vi+int(arg)+oi)%2 != 0 {
					continue
				}
				n++
				g := seccomp.SyscallGroup{Action: seccomp.ActionErrno, Names: []string{P[2]}, NamesWithCondtions: []seccomp.NameWithConditions{{Name: P[1], Conditions: seccomp.ArgumentConditions{{Argument: arg, Operation: op, Value: v}}}}}
				add("cond/single/"+string(op), []seccomp.SyscallGroup{g}, n%7 == 0, uint32(n%2), n%4 < 2)
			}
		}
	}
	// two conditions / two lists / conditional entries in two groups, kill_process behind a condition
	for oi, op1 := range allOps {
		for oj, op2 := range allOps {
			if tier == "quick" && (oi+oj)%3 != 0 {
				continue
			}
			n++
			c1 := seccomp.Condition{Argument: uint32(oi % 6), Operation: op1, Value: 1<<32 + 5}
			c2 := seccomp.Condition{Argument: uint32((oj + 3) % 6), Operation: op2, Value: 1 << 31}
			add("cond/and", []seccomp.SyscallGroup{{Action: seccomp.ActionErrno, NamesWithCondtions: []seccomp.NameWithConditions{{Name: P[1], Conditions: seccomp.ArgumentConditions{c1, c2}}}}}, false, uint32(n%2), n%4 < 2)
			add("cond/or+later-entry", []seccomp.SyscallGroup{{Action: seccomp.ActionErrno, NamesWithCondtions: []seccomp.NameWithConditions{
				{Name: P[1], Conditions: seccomp.ArgumentConditions{c1}}, {Name: P[1], Conditions: seccomp.ArgumentConditions{c2}},
				{Name: P[3], Conditions: seccomp.ArgumentConditions{{Argument: 0, Operation: seccomp.Equal, Value: uint64(mustNum(a, P[1]))}}}}}}, false, uint32(n%2), n%4 < 2)
			// the same syscall listed twice with another conditional syscall in between (A, B, A) and (A, B, C, A, B)
			add("cond/interleaved", []seccomp.SyscallGroup{{Action: seccomp.ActionErrno, NamesWithCondtions: []seccomp.NameWithConditions{
				{Name: P[1], Conditions: seccomp.ArgumentConditions{c1}}, {Name: P[3], Conditions: seccomp.ArgumentConditions{c2}}, {Name: P[1], Conditions: seccomp.ArgumentConditions{c2}}}}}, false, uint32(n%2), n%4 < 2)
			add("cond/interleaved", []seccomp.SyscallGroup{{Action: seccomp.ActionErrno, NamesWithCondtions: []seccomp.NameWithConditions{
				{Name: P[1], Conditions: seccomp.ArgumentConditions{c1}}, {Name: P[3], Conditions: seccomp.ArgumentConditions{c2}}, {Name: P[4], Conditions: seccomp.ArgumentConditions{c1}}, {Name: P[1], Conditions: seccomp.ArgumentConditions{c2}}, {Name: P[3], Conditions: seccomp.ArgumentConditions{c1}}}}}, false, uint32(n%2), n%4 < 2)
			// three conditions in one list (every subset of them can hold for a probe event: first and last without the middle one)
			c3 := seccomp.Condition{Argument: uint32((oi + oj + 1) % 6), Operation: allOps[(oi+oj)%len(allOps)], Value: 7}
			if c3.Argument == c1.Argument || c3.Argument == c2.Argument {
				c3.Argument = (c3.Argument + 1) % 6
				if c3.Argument == c1.Argument || c3.Argument == c2.Argument {
					c3.Argument = (c3.Argument + 1) % 6
				}
			}
			add("cond/and3", []seccomp.SyscallGroup{{Action: seccomp.ActionErrno, NamesWithCondtions: []seccomp.NameWithConditions{{Name: P[1], Conditions: seccomp.ArgumentConditions{c1, c2, c3}}}}}, false, uint32(n%2), n%4 < 2)
			add("cond/two-groups+kill", []seccomp.SyscallGroup{
				{Action: seccomp.ActionErrno, NamesWithCondtions: []seccomp.NameWithConditions{{Name: P[1], Conditions: seccomp.ArgumentConditions{c1}}}},
				{Action: seccomp.ActionKillProcess, NamesWithCondtions: []seccomp.NameWithConditions{{Name: P[1], Conditions: seccomp.ArgumentConditions{c2}}}, Names: []string{P[4]}}}, n%5 == 0, uint32(n%2), n%4 < 2)
		}
	}
	// policies without a single syscall name (every group empty): the filter that is installed is the architecture check,
	// the x32 guard and the default action - it has to be installed like any other
	for _, def := range []seccomp.Action{seccomp.ActionAllow, seccomp.ActionLog} {
		for _, ng := range []int{1, 2} {
			n++
			p := &seccomp.Policy{DefaultAction: def}
			for i := 0; i < ng; i++ {
				p.Syscalls = append(p.Syscalls, seccomp.SyscallGroup{Action: []seccomp.Action{seccomp.ActionErrno, seccomp.ActionKillProcess}[i]})
			}
			for _, fl := range []uint32{0, 1} {
				jobs = append(jobs, c08Job{"degenerate/default-only", p, fl, true, false})
			}
		}
	}
	// a first group whose conditional entry needs long jumps (> 255 instructions), then a second group naming the same and another syscall
	for _, act2 := range []seccomp.Action{seccomp.ActionErrno, seccomp.ActionKillProcess} {
		for _, nEntries := range []int{64, 70} {
			n++
			g := seccomp.SyscallGroup{Action: seccomp.ActionAllow, Names: []string{P[0]}}
			for i := 0; i < nEntries; i++ {
				g.NamesWithCondtions = append(g.NamesWithCondtions, seccomp.NameWithConditions{Name: P[1], Conditions: seccomp.ArgumentConditions{{Argument: 0, Operation: seccomp.Equal, Value: uint64(1000 + i)}}})
			}
			add("cond/long-group-then-group", []seccomp.SyscallGroup{g, {Action: act2, Names: []string{P[2], P[1]}}}, false, uint32(n%2), n%4 < 2)
		}
	}
	if tier == "thorough" {
		// the rotation of (flags, no_new_privs, uid) used above becomes the full product
		var all []c08Job
		for _, j := range jobs {
			for _, fl := range []uint32{0, 1} {
				for _, nnp := range []bool{false, true} {
					for _, unpriv := range []bool{false, true} {
						all = append(all, c08Job{j.label, j.pol, fl, nnp, unpriv})
					}
				}
			}
		}
		jobs = all
	}
	return jobs
}

func checkC08(tier, replay string) int {
	ctx := evid.New("C08", tier, "model_checking")
	if !seccompAvailable() {
		ctx.Capped("seccomp(2) is not available here; nothing could be replayed")
		ctx.Cov["states"], ctx.Cov["transitions"], ctx.Cov["traces_validated_against_impl"] = 1, 1, 0
		ctx.Sample("seccomp unavailable")
		return ctx.Finish()
	}
	a := refsem.ArchByName("x86_64")
	if replay != "" {
		var f struct {
			Case struct {
				Policy engine.PolJSON `json:"policy"`
				Flags  uint32         `json:"flags"`
				NNP    bool           `json:"nnp"`
				Unpriv bool           `json:"unprivileged"`
			} `json:"case"`
		}
		if err := readJSON(replay, &f); err != nil {
			fmt.Println(err)
			return 2
		}
		var children, events, kills int64
		var g struct {
			Case struct {
				Held  *engine.PolJSON `json:"held_policy"`
				Other *engine.PolJSON `json:"other_policy"`
				Sync  bool            `json:"other_thread_sync"`
			} `json:"case"`
		}
		if readJSON(replay, &g) == nil && g.Case.Held != nil && g.Case.Other != nil {
			// an interleaved pair of loads
			_, ph := engine.FromJSON(*g.Case.Held)
			_, po := engine.FromJSON(*g.Case.Other)
			c08ConcOne(ctx, a, ph, po, g.Case.Sync, "replay", &children, &events)
		} else {
			_, p := engine.FromJSON(f.Case.Policy)
			c08One(ctx, a, c08Job{"replay", p, f.Case.Flags, f.Case.NNP, f.Case.Unpriv}, 100, &children, &events, &kills)
		}
		if ctx.NumViolations() > 0 {
			fmt.Println("REPRODUCED")
			return 1
		}
		fmt.Println("not reproduced")
		return 0
	}
	jobs := c08Policies(a, tier)
	var children, events, kills int64
	maxKill := 2
	if tier == "thorough" {
		maxKill = 6
	}
	parallelFor(len(jobs), func(i int) { c08One(ctx, a, jobs[i], maxKill, &children, &events, &kills) })
	conc := c08Concurrent(ctx, a, jobs, tier, &children, &events)
	ctx.Cov["loads_held_at_the_seam_while_another_thread_loads"] = conc
	ctx.Cov["states"] = len(jobs)
	ctx.Cov["transitions"] = events
	ctx.Cov["traces_validated_against_impl"] = events
	ctx.Cov["child_processes"] = children
	ctx.Cov["same_filter_loaded_on_two_threads"] = atomic.LoadInt64(&c08Twice)
	ctx.Cov["loads_after_a_foreign_load_on_another_thread"] = atomic.LoadInt64(&c08Pre)
	ctx.Cov["kill_process_events_observed_as_SIGSYS"] = kills
	ctx.Cov["policies_loaded"] = len(jobs)
	ctx.Cov["rule"] = "states = policies of probe scope S8 over {getpgrp,getppid,getuid,geteuid,getgid,getegid} (names-only with 1-2 groups and 4 actions; single conditions over 8 ops x 6 argument registers x boundary operands; AND lists, OR lists, the same syscall listed twice with other conditional syscalls in between, conditional entries in two groups, kill_process behind a condition, a first group of 64/70 conditional entries (long jumps) followed by a second group, policies whose groups are all empty (default-only filter); with and without the whole remaining table as a >255-instruction allow group), each loaded by the real LoadFilter in a fresh child with flags in {0,tsync} and no_new_privs on/off, as root and as uid 65534 (quick tier: one combination per policy in rotation; thorough tier: all eight for every policy), about half of the loads with a policy value that was assembled and dumped in an earlier shape (one group less, another default action) before being completed, a third after another thread has loaded a longer unrelated filter, a third followed by a load of the same filter on the second thread (which then must be filtered too); plus interleaved loads: thread T0's LoadFilter of a probe policy is held at the seccomp(2) seam (no_new_privs set, sock_fprog built) while thread T1 performs a complete LoadFilter of another policy (without and with thread-sync), then released - the sock_fprog must be unchanged on release, T0 must decide by its own policy (combined with T1's when that was thread-synced: the kernel takes the most severe action) and T1 by its own; transitions = probe events: every probe syscall x every cell of the exact partition of the argument registers, issued with RawSyscall6 from the loading thread and from a second thread; the reference decision (model) is compared with errno / SIGSYS observed on the real kernel, and the sock_fprog captured at the seam hook with the program compiled in the parent"
	ctx.Assumptions = []string{"probe syscalls ignore their arguments and always succeed when allowed", "refsem.Decide is the model; the kernel is the implementation", "only host architecture (x86_64) events can be issued"}
	return ctx.Finish()
}

var c08Pre, c08Twice int64

func c08One(ctx *evid.Ctx, a *refsem.Arch, j c08Job, maxKill int, children, events, kills *int64) {
	pj := engine.ToJSON(a, j.pol, false)
	rep := map[string]any{"policy": pj, "flags": j.flags, "nnp": j.nnp, "scope": j.label, "unprivileged": j.unpriv}
	insts, err, pan := engine.Compile(a, j.pol, false)
	if err != nil || pan != nil {
		ctx.Violation("C08:compile:"+j.label, fmt.Sprintf("probe-scope policy does not compile: %v %v", err, pan), rep)
		return
	}
	prog, _ := engine.Raw(insts)
	evs, exact := c08Events(a, j.pol, prog, 4000)
	if evs == nil {
		ctx.Capped("event product too large for a probe policy of " + j.label)
		return
	}
	if !exact {
		ctx.Capped("partition inexact for a probe policy of " + j.label)
	}
	var normal, killers []cbpf.Event
	for _, e := range evs {
		if refsem.Decide(a, j.pol, e) == refsem.RetKillProcess {
			killers = append(killers, e)
		} else {
			normal = append(normal, e)
		}
	}
	toProbe := func(es []cbpf.Event, kill bool) []probeEv {
		out := make([]probeEv, len(es))
		for i, e := range es {
			out[i] = probeEv{Nr: e.Nr, Args: e.Args, Kill: kill}
		}
		return out
	}
	nruns := 1
	if len(killers) > 0 {
		nruns = len(killers)
		if nruns > maxKill {
			nruns = maxKill
		}
	}
	for run := 0; run < nruns; run++ {
		sc := &histScript{Threads: 3}
		// in a third of the runs another thread of the process has loaded a longer, unrelated filter before (no thread-sync):
		// nothing of that earlier load may end up in what is handed to the kernel now
		pre := 0
		if (int(crc32.ChecksumIEEE([]byte(fmt.Sprint(pj))))+run)%3 == 0 && !j.unpriv && j.flags&1 == 0 { // (with thread-sync the kernel would rightly refuse: that thread's filter has diverged)
			g := seccomp.SyscallGroup{Action: seccomp.ActionErrno}
			for l := 0; l < 260; l++ {
				g.NamesWithCondtions = append(g.NamesWithCondtions, seccomp.NameWithConditions{Name: "getsid", Conditions: seccomp.ArgumentConditions{{Argument: 0, Operation: seccomp.Equal, Value: uint64(l) + 1<<40}}})
			}
			prej := engine.ToJSON(a, &seccomp.Policy{DefaultAction: seccomp.ActionAllow, Syscalls: []seccomp.SyscallGroup{g}}, false)
			sc.Ops = append(sc.Ops, histOp{Op: "load", T: 2, Policy: &prej, Flags: 0, NNP: true})
			pre = 1
			atomic.AddInt64(&c08Pre, 1)
		}
		sc.Ops = append(sc.Ops, histOp{Op: "load", T: 0, Policy: &pj, Flags: j.flags, NNP: j.nnp, Staged: len(j.label)%2 == 0 || run%2 == 1})
		// in another third the second thread loads the very same filter value afterwards (no thread-sync): it must be installed
		// there as well, an equal filter loaded elsewhere in the process is no reason to skip it
		twice := (int(crc32.ChecksumIEEE([]byte(fmt.Sprint(pj))))+run)%3 == 1 && !j.unpriv && j.flags&1 == 0
		if twice {
			sc.Ops = append(sc.Ops, histOp{Op: "load", T: 1, Policy: &pj, Flags: j.flags, NNP: j.nnp})
			atomic.AddInt64(&c08Twice, 1)
		}
		sc.Ops = append(sc.Ops, histOp{Op: "state"})
		sc.Ops = append(sc.Ops, histOp{Op: "probe", T: 1, Events: toProbe(normal, false)})
		evT0 := toProbe(normal, false)
		if len(killers) > 0 {
			k := killers[(run*len(killers))/nruns]
			evT0 = append(evT0, toProbe([]cbpf.Event{k}, true)...)
		}
		sc.Ops = append(sc.Ops, histOp{Op: "probe", T: 0, Events: evT0})
		hr := runHist(sc, j.unpriv)
		atomic.AddInt64(children, 1)
		if pre == 1 && len(hr.Results) > 0 {
			if hr.Results[0].Err != nil {
				ctx.Capped("the preliminary load on another thread failed: " + *hr.Results[0].Err)
			}
			hr.Results = hr.Results[1:]
		}
		if hr.TimedOut || len(hr.Results) < 3 || (twice && len(hr.Results) < 4 && hr.Results[0].Err == nil) {
			ctx.Flaky()
			ctx.Capped("a C08 child did not complete")
			fmt.Printf("HARNESS-ERROR C08 child incomplete: %d results exit=%d sig=%v %.200s\n", len(hr.Results), hr.ExitCode, hr.Signal, hr.Stderr)
			return
		}
		ld := hr.Results[0]
		if pre == 1 && os.Getenv("DBG08") != "" {
			fmt.Printf("DBG pre: seam=%+v len(prog)=%d err=%v\n", ld.Seam, len(prog), ld.Err)
		}
		if ld.Err != nil && j.unpriv && !j.nnp {
			return // expected refusal (EACCES); whether it is reported properly is C09/C11's business
		}
		if ld.Err != nil {
			ctx.Violation("C08:load-failed:"+j.label, "LoadFilter failed for a valid probe policy: "+*ld.Err, rep)
			return
		}
		ld.Seam = installCalls(ld.Seam)
		if len(ld.Seam) != 1 || ld.Seam[0].Len != len(prog) || ld.Seam[0].Hash != hashInsns(prog) {
			ctx.Violation("C08:installed-differs:"+j.label, fmt.Sprintf("program handed to seccomp(2) (len/hash %v) is not the compiled one (len %d hash %s)", ld.Seam, len(prog), hashInsns(prog)), rep)
		}
		if twice {
			l2 := hr.Results[1]
			hr.Results = append(hr.Results[:1:1], hr.Results[2:]...)
			if l2.Err != nil {
				ctx.Violation("C08:second-load-failed:"+j.label, "LoadFilter of the same filter on a second thread failed: "+*l2.Err, rep)
				return
			}
			l2.Seam = installCalls(l2.Seam)
			if len(l2.Seam) != 1 || l2.Seam[0].Len != len(prog) || l2.Seam[0].Hash != hashInsns(prog) {
				ctx.Violation("C08:installed-differs:second-load:"+j.label, fmt.Sprintf("program handed to seccomp(2) by the second thread's load (len/hash %v) is not the compiled one (len %d hash %s)", l2.Seam, len(prog), hashInsns(prog)), rep)
			}
			if len(hr.Results) < 3 {
				ctx.Violation("C08:second-thread-died:"+j.label, "child ended after the second load", rep)
				return
			}
		}
		if len(ld.Seam) == 1 && ld.Seam[0].Flags != uint64(j.flags) {
			ctx.Violation("C08:flags-differ:"+j.label, fmt.Sprintf("flags at the seam %#x, requested %#x", ld.Seam[0].Flags, j.flags), rep)
		}
		check := func(res histResult, sent []probeEv, filtered bool, who string) {
			for i, en := range res.Errnos {
				e := cbpf.Event{Nr: sent[i].Nr, Arch: a.ID, Args: sent[i].Args}
				want := refsem.Decide(a, j.pol, e)
				if !filtered {
					want = refsem.RetAllow
				}
				wantErrno := 0
				if want == refsem.RetErrno|refsem.EPERM {
					wantErrno = 1
				}
				atomic.AddInt64(events, 1)
				if en != wantErrno {
					r2 := map[string]any{"policy": pj, "flags": j.flags, "nnp": j.nnp, "unprivileged": j.unpriv, "event": e, "thread": who}
					ctx.Violation(fmt.Sprintf("C08:decision:%s:%s:%v", j.label, who, sent[i]), fmt.Sprintf("kernel answered errno %d, policy says %#x (expected errno %d) for nr %d args %x on %s", en, want, wantErrno, e.Nr, e.Args, who), r2)
				}
			}
		}
		// second thread (created before the load): filtered only with thread-sync
		t1 := hr.Results[2]
		if len(t1.Errnos) != len(normal) {
			ctx.Violation("C08:second-thread-died:"+j.label, "second thread did not complete its probes", rep)
			return
		}
		check(t1, toProbe(normal, false), j.flags&1 != 0 || twice, "second-thread")
		// loading thread
		var t0 *histResult
		killAnnounced := -1
		for i := 3; i < len(hr.Results); i++ {
			r := hr.Results[i]
			if r.Op == "kill-next" {
				killAnnounced = r.T
				t0 = &hr.Results[i]
			}
			if r.Op == "probe" && r.T == 0 {
				t0 = &hr.Results[i]
			}
		}
		if t0 == nil {
			ctx.Violation("C08:loader-died:"+j.label, fmt.Sprintf("loading thread produced no probe results (signal %v)", hr.Signal), rep)
			return
		}
		check(*t0, evT0, true, "loading-thread")
		if len(killers) > 0 {
			if hr.Signal == syscall.SIGSYS && killAnnounced == len(normal) && t0.Op == "kill-next" {
				atomic.AddInt64(kills, 1)
				atomic.AddInt64(events, 1)
			} else {
				ctx.Violation("C08:kill-not-observed:"+j.label, fmt.Sprintf("policy answers kill_process for %v but the child ended with signal=%v exit=%d (announced index %d, %d normal events)", evT0[len(evT0)-1], hr.Signal, hr.ExitCode, killAnnounced, len(normal)), rep)
			}
		} else if hr.Signal != 0 || hr.ExitCode != 0 {
			ctx.Violation("C08:unexpected-death:"+j.label, fmt.Sprintf("child ended with signal=%v exit=%d though no event is answered kill", hr.Signal, hr.ExitCode), rep)
		}
	}
	ctx.Sample(map[string]any{"policy": pj, "flags": j.flags, "nnp": j.nnp, "probe_events": len(evs), "kill_events": len(killers)})
}

// c08Concurrent: schedules of two LoadFilter calls at the granularity of the seccomp(2) seam. T0 is stopped when it is about
// to enter seccomp(2); T1 then loads another policy completely; T0 continues. (The opposite order, T1's load between two
// complete steps of T0, is the sequential case covered above and by C09.)
func c08Concurrent(ctx *evid.Ctx, a *refsem.Arch, jobs []c08Job, tier string, children, events *int64) int64 {
	P := probeNames
	others := []*seccomp.Policy{
		{DefaultAction: seccomp.ActionAllow, Syscalls: []seccomp.SyscallGroup{{Action: seccomp.ActionErrno, Names: []string{P[0], P[4]}}}},
		{DefaultAction: seccomp.ActionAllow, Syscalls: []seccomp.SyscallGroup{{Action: seccomp.ActionErrno, NamesWithCondtions: []seccomp.NameWithConditions{{Name: P[1], Conditions: seccomp.ArgumentConditions{{Argument: 0, Operation: seccomp.GreaterOrEqual, Value: 0}}}, {Name: P[3], Conditions: seccomp.ArgumentConditions{{Argument: 2, Operation: seccomp.LessThan, Value: 1 << 40}}}}}}},
	}
	step := 6
	if tier == "thorough" {
		step = 1
	}
	type cj struct {
		j      c08Job
		other  int
		tsyncB bool
		swap   bool // the simple policy is the one that is held
	}
	var cjs []cj
	seenPol := map[*seccomp.Policy]bool{}
	n := 0
	for _, j := range jobs {
		if seenPol[j.pol] {
			continue
		}
		seenPol[j.pol] = true
		n++
		if n%step != 0 {
			continue
		}
		for o := range others {
			for _, ts := range []bool{false, true} {
				for _, sw := range []bool{false, true} {
					if tier != "thorough" && (n/step+o+b2i(ts)+b2i(sw))%4 != 0 {
						continue
					}
					cjs = append(cjs, cj{j, o, ts, sw})
				}
			}
		}
	}
	var done int64
	parallelFor(len(cjs), func(i int) {
		c := cjs[i]
		polHeld, polOther := c.j.pol, others[c.other]
		if c.swap {
			polHeld, polOther = polOther, polHeld
		}
		if c08ConcOne(ctx, a, polHeld, polOther, c.tsyncB, c.j.label, children, events) {
			atomic.AddInt64(&done, 1)
		}
	})
	return done
}

func c08ConcOne(ctx *evid.Ctx, a *refsem.Arch, polHeld, polOther *seccomp.Policy, tsyncB bool, label string, children, events *int64) bool {
	combine := func(x, y uint32) uint32 { // the kernel keeps the action with the lowest signed action value
		if int32(x&0xffff0000) <= int32(y&0xffff0000) {
			return x
		}
		return y
	}
	type cT struct {
		tsyncB bool
		j      struct{ label string }
	}
	c := cT{tsyncB: tsyncB}
	c.j.label = label
	{
		hj, oj := engine.ToJSON(a, polHeld, false), engine.ToJSON(a, polOther, false)
		rep := map[string]any{"held_policy": hj, "other_policy": oj, "other_thread_sync": c.tsyncB, "scope": c.j.label}
		compile := func(p *seccomp.Policy) []cbpf.Insn {
			insts, err, pan := engine.Compile(a, p, false)
			if err != nil || pan != nil {
				return nil
			}
			prog, _ := engine.Raw(insts)
			return prog
		}
		progH, progO := compile(polHeld), compile(polOther)
		if progH == nil || progO == nil {
			return false
		}
		evs, _ := c08Events(a, polHeld, progH, 4000)
		evs2, _ := c08Events(a, polOther, progO, 4000)
		evs = append(evs, evs2...)
		if evs == nil {
			return false
		}
		var fl2 uint32
		if c.tsyncB {
			fl2 = 1
		}
		// decisions: T0 (held) ends up with its own filter, plus the other one if that was thread-synced onto it; T1 has the other one only
		decide0 := func(e cbpf.Event) uint32 {
			d := refsem.Decide(a, polHeld, e)
			if c.tsyncB {
				d = combine(d, refsem.Decide(a, polOther, e))
			}
			return d
		}
		decide1 := func(e cbpf.Event) uint32 { return refsem.Decide(a, polOther, e) }
		var send []probeEv
		var sent []cbpf.Event
		for _, e := range evs {
			d0, d1 := decide0(e), decide1(e)
			if d0 == refsem.RetKillProcess || d1 == refsem.RetKillProcess {
				continue
			}
			send = append(send, probeEv{Nr: e.Nr, Args: e.Args})
			sent = append(sent, e)
		}
		sc := &histScript{Threads: 3}
		sc.Ops = append(sc.Ops, histOp{Op: "loadpair", T: 0, Policy: &hj, Flags: 0, NNP: true, T2: 1, Policy2: &oj, Flags2: fl2, NNP2: true})
		sc.Ops = append(sc.Ops, histOp{Op: "probe", T: 1, Events: send})
		sc.Ops = append(sc.Ops, histOp{Op: "probe", T: 0, Events: send})
		sc.Ops = append(sc.Ops, histOp{Op: "probe", T: 2, Events: send})
		hr := runHist(sc, false)
		atomic.AddInt64(children, 1)
		if hr.TimedOut || len(hr.Results) < 4 {
			ctx.Flaky()
			ctx.Capped("a C08 child (interleaved loads) did not complete")
			fmt.Printf("HARNESS-ERROR C08 interleaved child incomplete: %d results exit=%d sig=%v %.200s\n", len(hr.Results), hr.ExitCode, hr.Signal, hr.Stderr)
			return false
		}
		lp := hr.Results[0]
		if !lp.Reached {
			ctx.Capped("the held load never reached the seam")
			return false
		}
		if lp.Err != nil || lp.Err2 != nil {
			e1, e2 := "<nil>", "<nil>"
			if lp.Err != nil {
				e1 = *lp.Err
			}
			if lp.Err2 != nil {
				e2 = *lp.Err2
			}
			ctx.Violation("C08:interleaved:load-failed:"+c.j.label, fmt.Sprintf("two valid loads on two threads, one held at the seam while the other runs: held load: %s, other load: %s", e1, e2), rep)
			return false
		}
		for _, sm := range lp.Seam {
			if sm.Op != 1 || sm.Len <= 0 {
				continue
			}
			want, wantLen, who := hashInsns(progO), len(progO), "other"
			if sm.Tid == lp.Tid {
				want, wantLen, who = hashInsns(progH), len(progH), "held"
			}
			if sm.Hash != want || sm.Len != wantLen {
				ctx.Violation("C08:interleaved:installed-differs:"+who+":"+c.j.label, fmt.Sprintf("the %s load handed %d instructions (digest %s) to seccomp(2); its policy compiles to %d (%s)", who, sm.Len, sm.Hash, wantLen, want), rep)
			}
			if sm.Held && (sm.HeldHash != want || sm.HeldLen != wantLen) {
				ctx.Violation("C08:interleaved:program-changed-while-waiting:"+c.j.label, fmt.Sprintf("the sock_fprog of the held load changed while another thread loaded its filter: %d instructions (%s) on release, %d (%s) expected", sm.HeldLen, sm.HeldHash, wantLen, want), rep)
			}
		}
		chk := func(res histResult, who string, decide func(cbpf.Event) uint32) {
			if len(res.Errnos) != len(sent) {
				ctx.Violation("C08:interleaved:thread-died:"+who+":"+c.j.label, fmt.Sprintf("%s issued %d of %d probes (child signal %v)", who, len(res.Errnos), len(sent), hr.Signal), rep)
				return
			}
			for k, en := range res.Errnos {
				want := 0
				if d := decide(sent[k]); d == refsem.RetErrno|refsem.EPERM {
					want = 1
				}
				atomic.AddInt64(events, 1)
				if en != want {
					ctx.Violation(fmt.Sprintf("C08:interleaved:decision:%s:%s", who, c.j.label), fmt.Sprintf("%s: kernel answered errno %d, expected %d for nr %d args %x", who, en, want, sent[k].Nr, sent[k].Args), map[string]any{"held_policy": hj, "other_policy": oj, "other_thread_sync": c.tsyncB, "event": sent[k]})
					return
				}
			}
		}
		chk(hr.Results[1], "other-thread", decide1)
		chk(hr.Results[2], "held-thread", decide0)
		// a third thread that loaded nothing: filtered only through thread-sync
		chk(hr.Results[3], "bystander", func(e cbpf.Event) uint32 {
			if c.tsyncB {
				return decide1(e)
			}
			return refsem.RetAllow
		})
	}
	return true
}

func b2i(b bool) int {
	if b {
		return 1
	}
	return 0
}
