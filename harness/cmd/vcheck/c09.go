package main

import (
	"fmt"
	"strings"
	"sync"
	"sync/atomic"

	"verif/harness/evid"
	"verif/harness/kmodel"
)

func init() { register("C09", checkC09) }

const c09Threads = 3

var probeA = probeEv{Nr: 110, Args: [6]uint64{1, 2, 3, 4, 5, 6}} // getppid
var probeB = probeEv{Nr: 102, Args: [6]uint64{6, 5, 4, 3, 2, 1}} // getuid

func histScriptFor(ops []kmodel.Op) *histScript {
	sc := &histScript{Threads: c09Threads}
	obs := func() {
		sc.Ops = append(sc.Ops, histOp{Op: "state"})
		for t := 0; t < c09Threads; t++ {
			sc.Ops = append(sc.Ops, histOp{Op: "probe", T: t, Events: []probeEv{probeA, probeB}})
		}
	}
	obs()
	for _, o := range ops {
		if o.Op == "supported" {
			sc.Ops = append(sc.Ops, histOp{Op: "supported", T: o.T})
		} else {
			fl := uint32(0)
			if o.TSync {
				fl |= 1
			}
			if o.Kind == kmodel.KindBadFlag {
				fl |= 1 << 7
			}
			if o.Log {
				fl |= 2
			}
			kind := o.Kind
			if kind == kmodel.KindInvalid {
				// three kinds of invalid policy, by thread: unknown syscall name / argument index 6 / empty condition list
				kind = []string{"invalid", "invalid-arg6", "invalid-emptyconds"}[o.T%3]
			}
			sc.Ops = append(sc.Ops, histOp{Op: "load", T: o.T, Kind: kind, Flags: fl, NNP: o.NNP})
		}
		obs()
	}
	return sc
}

type c09Stats struct {
	transitions, replayed, refusals, eacces, einval, invalid, attached, modelMismatch, hung, denied int64
}

func histString(ops []kmodel.Op) string {
	var s []string
	for _, o := range ops {
		s = append(s, o.String())
	}
	return strings.Join(s, " ; ")
}

// replayHistory runs the history on the real kernel and checks model conformance and the property at every step.
func replayHistory(ctx *evid.Ctx, priv bool, ops []kmodel.Op, st *c09Stats) {
	if atomic.LoadInt64(&st.hung) > 12 {
		return
	}
	sc := histScriptFor(ops)
	hr := runHist(sc, !priv)
	atomic.AddInt64(&st.replayed, 1)
	perStep := 1 + c09Threads // state + probes
	want := perStep + len(ops)*(1+perStep)
	if atomic.LoadInt64(&st.hung) > 12 {
		return // too many children hung already: the run is reported as incomplete, do not spend minutes on the rest
	}
	if hr.TimedOut {
		atomic.AddInt64(&st.hung, 1)
	}
	if p := loadPanic(hr.Results); p != "" {
		ctx.Violation("C09:load-panicked", fmt.Sprintf("LoadFilter neither returned nil nor an error, it panicked (%s) in history [%s]", p, histString(ops)), map[string]any{"privileged": priv, "history": ops})
		return
	}
	if len(hr.Results) < want && len(hr.Results) < len(sc.Ops) {
		// the child died in the middle of the script: which operation was it executing?
		dying := sc.Ops[len(hr.Results)]
		prevSupported := len(hr.Results) > 0 && sc.Ops[len(hr.Results)-1].Op == "supported"
		if dying.Op == "supported" || ((dying.Op == "state" || dying.Op == "probe") && prevSupported) {
			ctx.Violation("C09:supported:process-died", fmt.Sprintf("the process did not survive probing for support (signal %v, exit %d; a hang counts: the probing thread was killed) in history [%s]: Supported() changed process state", hr.Signal, hr.ExitCode, histString(ops)), map[string]any{"privileged": priv, "history": ops})
			return
		}
	}
	if hr.TimedOut || len(hr.Results) != want {
		ctx.Flaky()
		fmt.Printf("HARNESS-ERROR child did not complete history %s (priv=%v): %d/%d results, exit=%d sig=%v stderr=%.200s\n", histString(ops), priv, len(hr.Results), want, hr.ExitCode, hr.Signal, hr.Stderr)
		ctx.Capped("a replay child did not complete")
		return
	}
	model := kmodel.New(priv, c09Threads)
	type snap struct {
		th    [c09Threads]kmodel.Observable
		oth   []threadObs
		byTid map[int]threadObs
	}
	read := func(base int) snap {
		var s snap
		s.byTid = map[int]threadObs{}
		for _, o := range hr.Results[base].State {
			s.byTid[o.Tid] = o
			if o.Role == "other" {
				s.oth = append(s.oth, o)
			}
		}
		for t := 0; t < c09Threads; t++ {
			pr := hr.Results[base+1+t]
			o := s.byTid[pr.Tid]
			s.th[t] = kmodel.Observable{NNP: o.NNP == 1, Filters: o.Filters, DenyA: pr.Errnos[0] == 1, DenyB: pr.Errnos[1] == 1}
			if (o.Seccomp == 2) != (o.Filters > 0) {
				s.th[t].Filters = -100 // inconsistent mode/count: force a mismatch report
			}
		}
		return s
	}
	conform := func(s snap, step int) bool {
		ok := true
		for t := 0; t < c09Threads; t++ {
			if s.th[t] != model.Threads[t].Observe() {
				ok = false
			}
		}
		mo := model.Others.Observe()
		for _, o := range s.oth {
			if (o.NNP == 1) != mo.NNP || o.Filters != mo.Filters {
				ok = false
			}
		}
		if !ok {
			atomic.AddInt64(&st.modelMismatch, 1)
			fmt.Printf("HARNESS-ERROR kernel model and kernel disagree after step %d of [%s] (priv=%v): kernel threads=%+v others=%+v model=%s\n", step, histString(ops), priv, s.th, s.oth, model.Canon())
			ctx.Capped("kernel model disagrees with the kernel on a transition")
		}
		return ok
	}
	prev := read(0)
	if !conform(prev, 0) {
		return
	}
	idx := perStep
	for i, o := range ops {
		res := hr.Results[idx]
		out := model.Apply(o)
		cur := read(idx + 1)
		idx += 1 + perStep
		isLast := i == len(ops)-1
		key := func(kind string) string {
			return fmt.Sprintf("C09:%s:%s:%s", kind, out.Reason, map[bool]string{true: "priv", false: "unpriv"}[priv])
		}
		rep := map[string]any{"privileged": priv, "history": ops[:i+1], "history_text": histString(ops[:i+1])}
		if o.Op == "supported" {
			if res.Bool == nil || *res.Bool != out.Supported {
				if isLast && out.Supported {
					ctx.Violation("C09:supported:false", "Supported() returned false on a kernel with seccomp", rep)
				} else if isLast {
					ctx.Violation("C09:supported:true-though-denied", "Supported() returned true on a thread whose filter answers EPERM to seccomp(2)", rep)
				}
			}
			changed := false
			for t := 0; t < c09Threads; t++ {
				if cur.th[t] != prev.th[t] {
					changed = true
				}
			}
			if changed && isLast {
				ctx.Violation("C09:supported:state-changed", fmt.Sprintf("probing for support changed process state: before %+v after %+v", prev.th, cur.th), rep)
			}
		} else {
			// property, judged on what the kernel shows (not on the model)
			grew := cur.th[o.T].Filters == prev.th[o.T].Filters+1
			everyoneSame := true
			if o.TSync && grew {
				for t := 0; t < c09Threads; t++ {
					if cur.th[t].Filters != cur.th[o.T].Filters || cur.th[t].DenyA != cur.th[o.T].DenyA || cur.th[t].DenyB != cur.th[o.T].DenyB {
						everyoneSame = false
					}
				}
				for _, x := range cur.oth {
					if x.Filters != cur.th[o.T].Filters {
						everyoneSame = false
					}
				}
			}
			inForce := grew && everyoneSame
			if isLast {
				switch {
				case res.Err == nil && !inForce:
					ctx.Violation(key("nil-without-filter"), fmt.Sprintf("LoadFilter returned nil but the filter is not in force (kernel: %s); history: %s; caller before %+v after %+v", out.Reason, histString(ops), prev.th[o.T], cur.th[o.T]), rep)
				case o.Kind == kmodel.KindInvalid && (len(installCalls(res.Seam)) > 0 || cur.th != prev.th):
					ctx.Violation(key("invalid-policy-touched-kernel"), fmt.Sprintf("a load with an invalid policy changed process state or reached the kernel: before %+v after %+v seam=%v", prev.th, cur.th, res.Seam), rep)
				case res.Err != nil && !inForce:
					// failed load: no filter may be left behind anywhere
					for t := 0; t < c09Threads; t++ {
						if cur.th[t].Filters != prev.th[t].Filters {
							ctx.Violation(key("failed-load-left-filter"), fmt.Sprintf("LoadFilter failed (%s) but thread T%d's filter count changed %d -> %d", *res.Err, t, prev.th[t].Filters, cur.th[t].Filters), rep)
						}
					}
				}
				switch out.Reason {
				case "tsync-refused":
					atomic.AddInt64(&st.refusals, 1)
				case "EACCES":
					atomic.AddInt64(&st.eacces, 1)
				case "EPERM-by-filter":
					atomic.AddInt64(&st.denied, 1)
				case "EINVAL":
					atomic.AddInt64(&st.einval, 1)
				case "invalid-policy":
					atomic.AddInt64(&st.invalid, 1)
				default:
					atomic.AddInt64(&st.attached, 1)
				}
			}
			// seam: what was handed to the kernel is the compiled program
			if in := installCalls(res.Seam); isLast && len(in) == 1 && (in[0].Hash != res.Compiled || in[0].Len != res.CompLen) {
				ctx.Violation("C09:program-differs", "program handed to seccomp(2) differs from the compiled one", rep)
			}
		}
		if !conform(cur, i+1) {
			return
		}
		prev = cur
	}
}

func checkC09(tier, replay string) int {
	if replay != "" {
		return replayC09(replay)
	}
	ctx := evid.New("C09", tier, "model_checking")
	if !seccompAvailable() {
		ctx.Capped("seccomp(2) is not available here; nothing could be replayed")
		ctx.Cov["states"], ctx.Cov["transitions"], ctx.Cov["traces_validated_against_impl"] = 1, 1, 0
		ctx.Sample("seccomp unavailable")
		return ctx.Finish()
	}
	depth := 3
	if tier == "thorough" {
		depth = 4
	}
	st := &c09Stats{}
	ops := kmodel.AllOps(c09Threads)
	states := 0
	for _, priv := range []bool{true, false} {
		type node struct {
			s    *kmodel.State
			hist []kmodel.Op
		}
		seen := map[string]bool{}
		init := kmodel.New(priv, c09Threads)
		seen[init.Canon()] = true
		frontier := []node{{init, nil}}
		for d := 0; d < depth && len(frontier) > 0; d++ {
			type trans struct {
				n  node
				op kmodel.Op
			}
			var ts []trans
			for _, n := range frontier {
				for _, o := range ops {
					ts = append(ts, trans{n, o})
				}
			}
			var mu sync.Mutex
			var next []node
			parallelFor(len(ts), func(i int) {
				t := ts[i]
				h := append(append([]kmodel.Op{}, t.n.hist...), t.op)
				atomic.AddInt64(&st.transitions, 1)
				replayHistory(ctx, priv, h, st)
				s2 := t.n.s.Clone()
				s2.Apply(t.op)
				k := s2.Canon()
				mu.Lock()
				if !seen[k] {
					seen[k] = true
					next = append(next, node{s2, h})
				}
				mu.Unlock()
			})
			// deterministic order: shortest, then lexicographic history text
			frontier = next
			if len(ctx.Cov) == 0 && len(next) > 0 {
				ctx.Sample(map[string]any{"privileged": priv, "history": histString(next[0].hist), "model_state": next[0].s.Canon()})
			}
		}
		states += len(seen)
	}
	if tier == "thorough" {
		// every history of length <= 2 without deduplication, so the claim does not rest on the abstraction
		for _, priv := range []bool{true, false} {
			var hs [][]kmodel.Op
			for _, a := range ops {
				for _, b := range ops {
					hs = append(hs, []kmodel.Op{a, b})
				}
			}
			parallelFor(len(hs), func(i int) {
				atomic.AddInt64(&st.transitions, 1)
				replayHistory(ctx, priv, hs[i], st)
			})
		}
	}
	ctx.Sample(map[string]any{"history": "T1.Load(A,tsync=false,nnp=false) ; T0.Load(B,tsync=true,nnp=true)", "meaning": "each step is followed by reading /proc/self/task/*/status and probing getppid/getuid on T0..T2; model state compared with kernel state after every step"})
	ctx.Cov["states"] = states
	ctx.Cov["transitions"] = st.transitions
	ctx.Cov["traces_validated_against_impl"] = st.replayed
	refusedNoMem, budgetLoads := c09Budget(ctx)
	ctx.Cov["loads_of_policies_that_restrict_nothing"] = c09Permissive(ctx)
	ctx.Cov["support_probes_under_filters_that_refuse_part_of_seccomp"] = c09SupportedEnv(ctx)
	ctx.Cov["budget_history_loads"] = budgetLoads
	ctx.Cov["budget_history_refusals_ENOMEM"] = refusedNoMem
	ctx.Cov["final_steps_by_kernel_answer"] = map[string]int64{"attached": st.attached, "tsync_refused": st.refusals, "EACCES": st.eacces, "EINVAL": st.einval, "invalid_policy_no_kernel_contact": st.invalid, "EPERM_from_an_earlier_filter_that_denies_seccomp": st.denied}
	ctx.Cov["model_kernel_mismatches"] = st.modelMismatch
	ctx.Cov["depth"] = depth
	ctx.Cov["rule"] = "explicit-state breadth-first search over the kernel model (3 harness threads + the class of all other threads; per thread: no_new_privs bit and filter stack with ancestry) with 85 operations (Load on T0..T2 x {A,B,invalid (unknown name / argument index 6 / empty condition list, by thread),oversize,badflag,denysec = a filter that answers EPERM to seccomp(2) itself} x tsync x nnp, valid kinds also with the log flag; Supported) from the privileged and the uid-65534 initial state, deduplicated on the canonical model state; every transition is replayed by running its shortest history plus the operation through the real LoadFilter in a fresh child process, reading /proc/self/task/*/status and probing after every step; plus the budget history: the same 3.7k-instruction filter is loaded on one thread until the kernel's per-thread limit (32768 instructions) refuses it with ENOMEM - after every one of the 12 loads nil <=> the thread's filter count grew; plus valid policies that restrict nothing (an allow group under an allow default, two of them, a deny group without names, the LOG default with a LOG group) loaded once and twice on T0/T1 x tsync x {root, uid 65534}: nil <=> the loading thread's filter count grew by one - 'in force' is a fact about the kernel, not about what the filter forbids; plus Supported() on T0/T1 under an outer filter that refuses seccomp(2) for strict mode only (EPERM / ENOSYS) or for the auxiliary operations only (loaded with and without thread-sync, root and uid 65534): the per-thread state is the same before and after"
	ctx.Assumptions = []string{"kernel model kmodel (validated against this kernel on every transition: model_kernel_mismatches must be 0)", "state deduplication is sound because the compared observables (NNP, filter count, probe answers of every thread) plus the ancestry structure kept in the canonical form are the whole state the kernel rules depend on", "runtime threads other than the three harness threads only change through thread-sync"}
	return ctx.Finish()
}

func replayC09(path string) int {
	var f struct {
		Key  string `json:"key"`
		Case struct {
			Priv    bool        `json:"privileged"`
			History []kmodel.Op `json:"history"`
		} `json:"case"`
	}
	if err := readJSON(path, &f); err != nil {
		fmt.Println(err)
		return 2
	}
	ctx := evid.New("C09-replay", "quick", "model_checking")
	var b struct {
		Case struct {
			Budget bool `json:"budget_history"`
		} `json:"case"`
	}
	var pm struct {
		Case struct {
			Perm bool `json:"permissive_policy"`
		} `json:"case"`
	}
	var se struct {
		Case struct {
			Env bool `json:"supported_environment"`
		} `json:"case"`
	}
	if readJSON(path, &se) == nil && se.Case.Env {
		fmt.Println("replaying Supported() under filters that refuse part of seccomp(2)")
		c09SupportedEnv(ctx)
		if ctx.NumViolations() > 0 {
			for _, l := range ctx.Describe() {
				fmt.Println(l)
			}
			fmt.Println("REPRODUCED")
			return 1
		}
		fmt.Println("not reproduced (property holds in these environments)")
		return 0
	}
	if readJSON(path, &pm) == nil && pm.Case.Perm {
		fmt.Println("replaying the loads of policies that restrict nothing")
		c09Permissive(ctx)
		if ctx.NumViolations() > 0 {
			for _, l := range ctx.Describe() {
				fmt.Println(l)
			}
			fmt.Println("REPRODUCED")
			return 1
		}
		fmt.Println("not reproduced (property holds on these loads)")
		return 0
	}
	if readJSON(path, &b) == nil && b.Case.Budget {
		fmt.Println("replaying the budget history (12 loads of one large filter on one thread; root and uid 65534, without and with thread-sync)")
		c09Budget(ctx)
		if ctx.NumViolations() > 0 {
			for _, l := range ctx.Describe() {
				fmt.Println(l)
			}
			fmt.Println("REPRODUCED")
			return 1
		}
		fmt.Println("not reproduced (property holds on this history)")
		return 0
	}
	st := &c09Stats{}
	fmt.Printf("replaying history (privileged=%v): %s\n", f.Case.Priv, histString(f.Case.History))
	sc := histScriptFor(f.Case.History)
	hr := runHist(sc, !f.Case.Priv)
	for _, r := range hr.Results {
		fmt.Println(mustJSON(r))
	}
	replayHistory(ctx, f.Case.Priv, f.Case.History, st)
	if ctx.NumViolations() > 0 {
		fmt.Println("REPRODUCED")
		return 1
	}
	fmt.Println("not reproduced (property holds on this history)")
	return 0
}

// c09Budget: a history the breadth-first search cannot reach (it needs nine loads): the same large filter is loaded on one
// thread again and again; the kernel refuses with ENOMEM once the thread's filters exceed 32768 instructions in total. The
// property oracle needs no model here: after every load, nil <=> the thread's filter count grew by one.
func c09Budget(ctx *evid.Ctx) (refused, loads int64) {
	for _, priv := range []bool{true, false} {
		for _, tsync := range []uint32{0, 1} {
			sc := &histScript{Threads: c09Threads}
			sc.Ops = append(sc.Ops, histOp{Op: "state"})
			const n = 12
			for i := 0; i < n; i++ {
				sc.Ops = append(sc.Ops, histOp{Op: "load", T: 0, Kind: "huge", Flags: tsync, NNP: true}, histOp{Op: "state"})
			}
			hr := runHist(sc, !priv)
			if p := loadPanic(hr.Results); p != "" {
				ctx.Violation("C09:load-panicked:budget", "LoadFilter panicked in the budget history: "+p, map[string]any{"privileged": priv, "budget_history": true, "tsync": tsync})
				continue
			}
			if hr.TimedOut || len(hr.Results) != 1+2*n {
				ctx.Capped("the budget history child did not complete")
				continue
			}
			count := func(r histResult, tid int) int {
				for _, o := range r.State {
					if o.Tid == tid {
						return o.Filters
					}
				}
				return -1
			}
			sawRefusal := false
			for i := 0; i < n; i++ {
				ld, before, after := hr.Results[1+2*i], hr.Results[2*i], hr.Results[2+2*i]
				loads++
				fb, fa := count(before, ld.Tid), count(after, ld.Tid)
				rep := map[string]any{"privileged": priv, "budget_history": true, "tsync": tsync, "load_number": i + 1}
				switch {
				case ld.Err == nil && fa != fb+1:
					ctx.Violation("C09:nil-without-filter:budget", fmt.Sprintf("load #%d of the same %s filter on one thread returned nil but the thread's filter count went %d -> %d (the kernel refuses once 32768 instructions are exceeded)", i+1, "3.7k-instruction", fb, fa), rep)
				case ld.Err != nil && fa != fb:
					ctx.Violation("C09:failed-load-left-filter:budget", fmt.Sprintf("load #%d failed (%s) but the filter count went %d -> %d", i+1, *ld.Err, fb, fa), rep)
				}
				if ld.Err != nil {
					sawRefusal = true
					if strings.Contains(*ld.Err, "cannot allocate memory") {
						refused++
					}
				}
			}
			if !sawRefusal {
				ctx.Capped("the kernel never refused in the budget history (limit not reached?)")
			}
		}
	}
	return
}

// c09Permissive: valid policies under which nothing is denied. Whether a filter is in force is a kernel fact (Seccomp: 2, one
// more filter in Seccomp_filters; on x86_64 it also starts answering ENOSYS to x32 numbers), so nil <=> the count grew holds
// for them as for any other policy.
func c09Permissive(ctx *evid.Ctx) (loads int64) {
	kinds := []string{"perm-allowgroup", "perm-twoallow", "perm-emptydeny", "perm-log"}
	type job struct {
		kind  string
		priv  bool
		t     int
		tsync uint32
	}
	var jobs []job
	for _, k := range kinds {
		for _, priv := range []bool{true, false} {
			for _, t := range []int{0, 1} {
				for _, ts := range []uint32{0, 1} {
					jobs = append(jobs, job{k, priv, t, ts})
				}
			}
		}
	}
	parallelFor(len(jobs), func(i int) {
		j := jobs[i]
		sc := &histScript{Threads: c09Threads}
		sc.Ops = append(sc.Ops, histOp{Op: "state"}, histOp{Op: "load", T: j.t, Kind: j.kind, Flags: j.tsync, NNP: true}, histOp{Op: "state"}, histOp{Op: "load", T: j.t, Kind: j.kind, Flags: j.tsync, NNP: true}, histOp{Op: "state"})
		hr := runHist(sc, !j.priv)
		rep := map[string]any{"privileged": j.priv, "permissive_policy": true, "kind": j.kind, "thread": j.t, "tsync": j.tsync}
		if p := loadPanic(hr.Results); p != "" {
			ctx.Violation("C09:load-panicked:permissive", "LoadFilter panicked on a policy that restricts nothing: "+p, rep)
			return
		}
		if hr.TimedOut || len(hr.Results) != 5 {
			ctx.Capped("a permissive-policy child did not complete")
			return
		}
		count := func(r histResult, tid int) int {
			for _, o := range r.State {
				if o.Tid == tid {
					return o.Filters
				}
			}
			return -1
		}
		for k := 0; k < 2; k++ {
			ld, before, after := hr.Results[1+2*k], hr.Results[2*k], hr.Results[2+2*k]
			atomic.AddInt64(&loads, 1)
			fb, fa := count(before, ld.Tid), count(after, ld.Tid)
			switch {
			case ld.Err == nil && fa != fb+1:
				ctx.Violation("C09:nil-without-filter:permissive:"+j.kind, fmt.Sprintf("load #%d of a valid policy that restricts nothing (%s) returned nil but the loading thread's filter count went %d -> %d: no filter is in force", k+1, j.kind, fb, fa), rep)
			case ld.Err != nil && fa != fb:
				ctx.Violation("C09:failed-load-left-filter:permissive:"+j.kind, fmt.Sprintf("load #%d (%s) failed (%s) but the filter count went %d -> %d", k+1, j.kind, *ld.Err, fb, fa), rep)
			}
		}
	})
	return
}

// c09SupportedEnv: Supported() must not change anything whatever the kernel answers to its probe. Environments: an outer
// filter (loaded through the library, with and without thread-sync) that refuses seccomp(2) only for strict mode - with
// EPERM or ENOSYS, as container profiles do - or only for the operations above SET_MODE_FILTER; then Supported() on the
// loader's thread and on another one, the per-thread state read before and after.
func c09SupportedEnv(ctx *evid.Ctx) (probes int64) {
	type job struct {
		kind  string
		priv  bool
		t     int
		tsync uint32
	}
	var jobs []job
	for _, k := range []string{"denystrict", "denystrict-enosys", "denyaux"} {
		for _, priv := range []bool{true, false} {
			for _, t := range []int{0, 1} {
				for _, ts := range []uint32{0, 1} {
					jobs = append(jobs, job{k, priv, t, ts})
				}
			}
		}
	}
	parallelFor(len(jobs), func(i int) {
		j := jobs[i]
		sc := &histScript{Threads: c09Threads}
		sc.Ops = append(sc.Ops, histOp{Op: "load", T: 0, Kind: j.kind, Flags: j.tsync, NNP: true}, histOp{Op: "state"}, histOp{Op: "supported", T: j.t}, histOp{Op: "state"}, histOp{Op: "supported", T: j.t}, histOp{Op: "state"})
		hr := runHist(sc, !j.priv)
		rep := map[string]any{"privileged": j.priv, "supported_environment": true, "kind": j.kind, "thread": j.t, "tsync": j.tsync}
		if hr.TimedOut || len(hr.Results) != len(sc.Ops) || hr.Results[0].Err != nil {
			ctx.Capped("a Supported()-environment child did not complete")
			return
		}
		for k := 0; k < 2; k++ {
			before, after := hr.Results[1+2*k], hr.Results[3+2*k]
			atomic.AddInt64(&probes, 1)
			for _, b := range before.State {
				for _, a := range after.State {
					if a.Tid == b.Tid && (a.Filters != b.Filters || a.Seccomp != b.Seccomp || a.NNP != b.NNP) {
						ctx.Violation("C09:supported:state-changed:"+j.kind, fmt.Sprintf("probing for support (call %d, thread T%d) under a filter that refuses part of seccomp(2) (%s) changed thread %d: filters %d -> %d, mode %d -> %d, no_new_privs %d -> %d", k+1, j.t, j.kind, a.Tid, b.Filters, a.Filters, b.Seccomp, a.Seccomp, b.NNP, a.NNP), rep)
						return
					}
				}
			}
		}
	})
	return
}
