package main

import (
	"bufio"
	"bytes"
	"context"
	"encoding/json"
	"fmt"
	"os"
	"os/exec"
	"path/filepath"
	"strings"
	"sync"
	"sync/atomic"
	"syscall"
	"time"

	"verif/harness/evid"
)

func init() { register("C10", checkC10) }

var c10Phases = []string{"spin", "sleep", "read", "futex", "spawn"}

func runChildJSON(ctxTimeout time.Duration, unpriv bool, env []string, sub string, in any, out any) (sig syscall.Signal, exit int, stderr string, err error) {
	if tooManyHung() {
		return 0, -1, "", fmt.Errorf("not started: too many children hung before")
	}
	self, _ := os.Executable()
	if unpriv {
		self = publicSelf()
	}
	for _, e := range env {
		if alt, ok := strings.CutPrefix(e, "VERIF_CHILD_BIN="); ok && alt != "" {
			self = alt // another build of this harness (cgo-linked), placed next to the public copy
		}
	}
	b, _ := json.Marshal(in)
	cctx, cancel := context.WithTimeout(context.Background(), ctxTimeout)
	defer cancel()
	cmd := exec.CommandContext(cctx, self, "child", sub)
	for _, e := range env {
		if e == "VERIF_UNAME26=1" {
			// environment answer: uname(2) reports an old release (UNAME26 personality, inherited by every thread) although the
			// kernel is what it is - what reaches seccomp(2) must not depend on it
			if sa, err := exec.LookPath("setarch"); err == nil {
				cmd = exec.CommandContext(cctx, sa, "x86_64", "--uname-2.6", self, "child", sub)
			}
		}
	}
	for _, e := range env {
		if name, ok := strings.CutPrefix(e, "VERIF_EXENAME="); ok && name != "" {
			// the same binary under another executable name (a symbolic link: comm and /proc/<pid>/stat show the link's name)
			d, err := os.MkdirTemp(filepath.Dir(publicSelf()), "exe")
			if err == nil {
				os.Chmod(d, 0o755)
				defer os.RemoveAll(d)
				link := filepath.Join(d, name)
				if os.Symlink(self, link) == nil {
					cmd = exec.CommandContext(cctx, link, "child", sub)
				}
			}
		}
		if rv, ok := strings.CutPrefix(e, "VERIF_SECCOMP_RETVAL="); ok && rv != "" {
			// every seccomp(2) call is answered by a tracer with a positive result and never reaches the kernel
			cmd = exec.CommandContext(cctx, "strace", "-f", "-o", "/dev/null", "-e", "trace=seccomp", "-e", "signal=none", "-e", "inject=seccomp:retval="+rv, self, "child", sub)
		}
		if e == "VERIF_PRCTL_DELAY=1" {
			// schedule point at prctl(2): a tracer holds the calling thread in the kernel for 60 ms after every prctl
			cmd = exec.CommandContext(cctx, "strace", "-f", "-o", "/dev/null", "-e", "trace=prctl", "-e", "signal=none", "-e", "inject=prctl:delay_exit=60000", self, "child", sub)
		}
	}
	cmd.Stdin = bytes.NewReader(b)
	cmd.Env = append(os.Environ(), env...)
	var so, se bytes.Buffer
	cmd.Stdout, cmd.Stderr = &so, &se
	cmd.SysProcAttr = &syscall.SysProcAttr{Pdeathsig: syscall.SIGKILL}
	if unpriv {
		cmd.SysProcAttr.Credential = &syscall.Credential{Uid: 65534, Gid: 65534}
	}
	rerr := cmd.Run()
	if cctx.Err() != nil {
		atomic.AddInt64(&childTimeouts, 1)
	}
	if ee, ok := rerr.(*exec.ExitError); ok {
		if ws, ok := ee.Sys().(syscall.WaitStatus); ok {
			if ws.Signaled() {
				sig = ws.Signal()
			}
			exit = ws.ExitStatus()
		}
	}
	sc := bufio.NewScanner(&so)
	sc.Buffer(make([]byte, 1<<20), 1<<26)
	if sc.Scan() {
		err = json.Unmarshal(sc.Bytes(), out)
	} else {
		err = fmt.Errorf("no output (exit=%d sig=%v err=%v)", exit, sig, rerr)
	}
	return sig, exit, se.String(), err
}

func checkC10(tier, replay string) int {
	ctx := evid.New("C10", tier, "model_checking")
	if !seccompAvailable() {
		ctx.Capped("seccomp(2) is not available here; nothing could be replayed")
		ctx.Cov["states"], ctx.Cov["transitions"], ctx.Cov["traces_validated_against_impl"] = 1, 1, 0
		ctx.Sample("seccomp unavailable")
		return ctx.Finish()
	}
	var scripts []tsyncScript
	if replay != "" {
		var f struct {
			Case tsyncScript `json:"case"`
		}
		if err := readJSON(replay, &f); err != nil {
			fmt.Println(err)
			return 2
		}
		scripts = []tsyncScript{f.Case}
	} else {
		var vectors [][]string
		maxN := 2
		if tier == "thorough" {
			maxN = 3
		}
		var rec func(v []string, n int)
		rec = func(v []string, n int) {
			if len(v) == n {
				vectors = append(vectors, append([]string{}, v...))
				return
			}
			for _, p := range c10Phases {
				rec(append(v, p), n)
			}
		}
		for n := 1; n <= maxN; n++ {
			rec(nil, n)
		}
		big := []int{8}
		if tier == "thorough" {
			big = []int{8, 64}
		}
		for _, n := range big {
			for _, p := range c10Phases {
				v := make([]string, n)
				for i := range v {
					v[i] = p
				}
				vectors = append(vectors, v)
			}
			// one mixed vector
			v := make([]string, n)
			for i := range v {
				v[i] = c10Phases[i%5]
			}
			vectors = append(vectors, v)
		}
		for _, v := range vectors {
			for _, fl := range []uint32{0, 1, 2, 3} {
				for _, lm := range []bool{false, true} {
					scripts = append(scripts, tsyncScript{Phases: v, Flags: fl, LoaderMain: lm, NNP: len(v)%2 == 0})
					if len(v) <= 2 {
						scripts = append(scripts, tsyncScript{Phases: v, Flags: fl, LoaderMain: lm, NNP: len(v)%2 == 0, Uname26: true})
						// a policy that uses the LOG action: the flag word is still the caller's
						scripts = append(scripts, tsyncScript{Phases: v, Flags: fl, LoaderMain: lm, NNP: true, LogPolicy: true})
						// as uid 65534, with and without no_new_privs
						scripts = append(scripts, tsyncScript{Phases: v, Flags: fl, LoaderMain: lm, NNP: true, Unpriv: true}, tsyncScript{Phases: v, Flags: fl, LoaderMain: lm, NNP: false, Unpriv: true})
						// every auxiliary seccomp(2) operation (support probes) is refused by an outer filter, loads are not
						scripts = append(scripts, tsyncScript{Phases: v, Flags: fl, LoaderMain: lm, NNP: true, OuterDenyAux: true})
						// a kernel that does not know a flag bit yet (outer filter answering EINVAL to loads whose flag word has it):
						// a refusal is expected when the word has the bit; whatever the library does about it, nil still means
						// "this flag word reached the kernel, every thread covered if it asks for thread-sync"
						for _, m := range []uint32{1, 2} {
							scripts = append(scripts, tsyncScript{Phases: v, Flags: fl, LoaderMain: lm, NNP: true, OuterEINVAL: m})
						}
						// a policy the kernel cannot take as one program (more than 4096 instructions, 41 groups): a refusal is
						// expected; whatever else the library does, nil means one load with this flag word and everyone covered
						scripts = append(scripts, tsyncScript{Phases: v, Flags: fl, LoaderMain: lm, NNP: true, BigPolicy: true})
					}
					if len(v) <= 2 {
						// history: an earlier thread-sync load (policy B) covered everyone; the load under test must behave as its own
						// flag word says (without thread-sync: nobody else gets the new filter)
						scripts = append(scripts, tsyncScript{Phases: v, Flags: fl, LoaderMain: lm, NNP: false, PriorSync: true})
					}
					if len(v) <= 2 {
						// environment: the executable's name (which the kernel repeats in /proc/<pid>/stat and comm) has blanks and
						// parentheses in it - nothing about the load may depend on what the process is called
						scripts = append(scripts, tsyncScript{Phases: v, Flags: fl, LoaderMain: lm, NNP: true, ExeName: "a b) R 9 (9 0"})
					}
					if len(v) <= 2 && fl&1 != 0 && straceWorks() {
						// the kernel's way of refusing a thread-sync load - a positive result naming the thread - produced by a tracer,
						// with the id of a thread that does not (or no longer) exist: nothing is installed, nil would be wrong
						for _, rv := range []uint32{1, 4000001} {
							scripts = append(scripts, tsyncScript{Phases: v, Flags: fl, LoaderMain: lm, NNP: true, TracerRetval: rv})
						}
					}
					if len(v) <= 2 && fl&1 != 0 {
						// a thread with a private filter: the kernel refuses thread-sync; nil is only acceptable if everyone is covered
						scripts = append(scripts, tsyncScript{Phases: v, Flags: fl, LoaderMain: lm, NNP: true, Divergent: true})
						// seccomp(2) itself answers ENOSYS (outer filter): a nil result is only acceptable if everyone is covered
						scripts = append(scripts, tsyncScript{Phases: v, Flags: fl, LoaderMain: lm, NNP: true, OuterENOSYS: true})
						// the same policy was already loaded without thread-sync on the loader: the sync load must still cover everyone
						scripts = append(scripts, tsyncScript{Phases: v, Flags: fl, LoaderMain: lm, NNP: len(v)%2 == 1, Preload: true})
					}
				}
			}
		}
	}
	var children, threadsChecked, probes, phaseVerified, spawnedDuring, refused int64
	// children with many busy threads are given a proportional share of the machine
	tokens := make(chan struct{}, 16)
	var tokMu sync.Mutex
	parallelFor(len(scripts), func(i int) {
		sc := scripts[i]
		w := len(sc.Phases)/4 + 1
		if w > 16 {
			w = 16
		}
		tokMu.Lock()
		for k := 0; k < w; k++ {
			tokens <- struct{}{}
		}
		tokMu.Unlock()
		defer func() {
			for k := 0; k < w; k++ {
				<-tokens
			}
		}()
		var rep tsyncReport
		env := []string{}
		if sc.LoaderMain {
			env = append(env, "VERIF_LOCK_MAIN=1")
		}
		if sc.Uname26 {
			env = append(env, "VERIF_UNAME26=1")
		}
		if sc.ExeName != "" {
			env = append(env, "VERIF_EXENAME="+sc.ExeName)
		}
		if sc.TracerRetval != 0 {
			env = append(env, fmt.Sprintf("VERIF_SECCOMP_RETVAL=%d", sc.TracerRetval))
		}
		limit := 40 * time.Second
		if len(sc.Phases) > 8 {
			limit = 150 * time.Second
		}
		sig, exit, se, err := runChildJSON(limit, sc.Unpriv, env, "tsync", sc, &rep)
		atomic.AddInt64(&children, 1)
		if err != nil || sig != 0 || exit != 0 {
			ctx.Flaky()
			ctx.Capped("a C10 child did not complete")
			fmt.Printf("HARNESS-ERROR C10 child failed for %+v: %v sig=%v exit=%d %.200s\n", sc, err, sig, exit, se)
			return
		}
		key := fmt.Sprintf("flags=%d", sc.Flags)
		if rep.Err != nil && strings.Contains(*rep.Err, panicMark) {
			ctx.Violation("C10:load-panicked:"+key, "LoadFilter panicked: "+*rep.Err, sc)
			return
		}
		if rep.Err != nil && (sc.Divergent || sc.OuterENOSYS || (sc.Unpriv && !sc.NNP) || sc.Flags&sc.OuterEINVAL != 0 || sc.BigPolicy || sc.TracerRetval != 0) {
			atomic.AddInt64(&refused, 1)
			return // refusal reported as an error: nothing to check
		}
		if rep.Err != nil {
			ctx.Violation("C10:load-failed:"+key, fmt.Sprintf("LoadFilter failed in a process without other filters: %s (phases %v)", *rep.Err, sc.Phases), sc)
			return
		}
		// only the calls that install a filter count: a library that probes for support first does nothing wrong
		installs := installCalls(rep.Seam)
		flagsOK := len(installs) >= 1
		for _, in := range installs {
			// (a library that installs a policy in several pieces does nothing wrong as long as every piece goes with the
			// requested flag word)
			flagsOK = flagsOK && in.Flags == uint64(sc.Flags)
		}
		if !flagsOK {
			ctx.Violation("C10:flags-modified:"+key, fmt.Sprintf("flags word at the syscall seam %+v differs from Filter.Flag %#x", rep.Seam, sc.Flags), sc)
		}
		atomic.AddInt64(&spawnedDuring, rep.Spawned)
		tsync := sc.Flags&1 != 0
		base, baseMode := 0, 0 // filters every thread has from the history before the load under test
		if sc.PriorSync || sc.OuterDenyAux || sc.OuterEINVAL != 0 {
			base, baseMode = 1, 2
		}
		for _, t := range rep.Threads {
			atomic.AddInt64(&threadsChecked, 1)
			atomic.AddInt64(&probes, 1)
			if t.PhaseSeen != "" && !strings.HasPrefix(t.PhaseSeen, "?") {
				atomic.AddInt64(&phaseVerified, 1)
			}
			if t.ProbeBefore != 0 && !sc.PriorSync {
				ctx.Violation("C10:filtered-before-load", "a thread was filtered before any load", sc)
			}
			if tsync {
				minF := 1 + base
				if sc.OuterENOSYS {
					minF = 2
				}
				if t.ProbeErrno != 1 || t.Seccomp != 2 || t.Filters < minF {
					ctx.Violation("C10:thread-not-covered:"+t.Phase, fmt.Sprintf("thread-sync load returned nil but thread %d (phase %s, /proc before load: %s, born after: %v) is not filtered: probe errno %d, Seccomp %d, filters %d; phases %v flags %d", t.Tid, t.Phase, t.PhaseSeen, t.BornAfter, t.ProbeErrno, t.Seccomp, t.Filters, sc.Phases, sc.Flags), sc)
				}
			} else if !t.BornAfter && !(sc.Divergent && t.Tid == rep.Threads[0].Tid) {
				if t.NNP != t.NNPBefore && !sc.OuterENOSYS && !sc.OuterDenyAux && sc.OuterEINVAL == 0 {
					ctx.Violation("C10:other-thread-touched:nnp", fmt.Sprintf("load without thread-sync changed the no_new_privs bit of another thread (%d, phase %s): %d -> %d", t.Tid, t.Phase, t.NNPBefore, t.NNP), sc)
				}
				if t.ProbeErrno != 0 || t.Seccomp != baseMode || t.Filters != base {
					ctx.Violation("C10:other-thread-touched:"+t.Phase, fmt.Sprintf("load without thread-sync changed thread %d (phase %s): probe errno %d, Seccomp %d, filters %d", t.Tid, t.Phase, t.ProbeErrno, t.Seccomp, t.Filters), sc)
				}
			}
		}
		for _, o := range rep.Scan {
			atomic.AddInt64(&threadsChecked, 1)
			if tsync && (o.Seccomp != 2 || o.Filters < 1+base || (sc.OuterENOSYS && o.Filters < 2)) {
				ctx.Violation("C10:scan-thread-not-covered", fmt.Sprintf("after a thread-sync load thread %d (%s) has Seccomp=%d filters=%d", o.Tid, o.Role, o.Seccomp, o.Filters), sc)
			}
			if !tsync && o.Tid == rep.LoaderTid && o.Filters < 1+base {
				ctx.Violation("C10:loader-not-filtered", "loader thread has no filter after a nil return", sc)
			}
			if !tsync && !sc.Divergent && o.Role != "loader" && o.Role != "other" && !strings.HasPrefix(o.Role, "born-after") && o.Filters != base {
				ctx.Violation("C10:other-thread-touched:scan", fmt.Sprintf("load without thread-sync: thread %d (%s) has %d filters", o.Tid, o.Role, o.Filters), sc)
			}
		}
		if i%97 == 0 {
			ctx.Sample(map[string]any{"script": sc, "threads_reported": len(rep.Threads), "scan": len(rep.Scan)})
		}
	})
	// flag word pass-through for every single-bit value (most are rejected by the kernel; the word must still arrive unmodified)
	var bits int64
	if replay == "" {
		parallelFor(32, func(b int) {
			fl := uint32(1) << b
			sc := &histScript{Threads: 1, Ops: []histOp{{Op: "load", T: 0, Kind: "A", Flags: fl, NNP: true}}}
			hr := runHist(sc, false)
			if len(hr.Results) != 1 {
				if fl == 8 || fl == 16 { // NEW_LISTENER / TSYNC_ESRCH may succeed and return an fd: still one result expected
				}
				ctx.Capped("flag-bit child incomplete")
				return
			}
			atomic.AddInt64(&bits, 1)
			r := hr.Results[0]
			if in := installCalls(r.Seam); len(in) != 1 || in[0].Flags != uint64(fl) {
				ctx.Violation(fmt.Sprintf("C10:flag-bit-modified:%d", b), fmt.Sprintf("Filter.Flag=%#x reached the syscall seam as %+v", fl, r.Seam), map[string]any{"flag": fl})
			}
		})
		straceFlagCheck(ctx)
	}
	ctx.Cov["states"] = len(scripts)
	ctx.Cov["transitions"] = threadsChecked
	ctx.Cov["traces_validated_against_impl"] = children
	ctx.Cov["phase_vectors_x_flags_x_loader_placement"] = len(scripts)
	ctx.Cov["threads_checked"] = threadsChecked
	ctx.Cov["threads_whose_phase_was_confirmed_in_proc_before_the_load"] = phaseVerified
	ctx.Cov["short_lived_threads_spawned_while_loading"] = spawnedDuring
	ctx.Cov["single_bit_flag_words_checked"] = bits
	ctx.Cov["thread_sync_refusals_reported_as_error"] = refused
	ctx.Cov["rule"] = "states = (vector of user-visible phases of N other OS threads at the moment of the load: spinning, in nanosleep, blocked in read, blocked in futex, spawning short-lived threads) x flags {0,tsync,log,tsync|log} x loader on main / non-main thread; every vector for N<=2 (quick) / N<=3 (thorough) and homogeneous + mixed vectors for N=8 (and 64 thorough); plus histories and environments for the small vectors (a preloaded filter, an earlier thread-sync load of another policy, a divergent thread, an outer filter answering ENOSYS to seccomp(2), an outer filter answering EPERM to every auxiliary seccomp(2) operation (support probes) but not to loads, an outer filter answering EINVAL to loads whose flag word has the thread-sync / the log bit (a kernel that does not know the bit), the whole child under a tracer that answers seccomp(2) with a positive result naming a thread that does not exist (the kernel's form of a refused thread-sync; nothing is installed), a deny-list policy of 41 groups that compiles to more than 4096 instructions (refusal expected), a policy with LOG actions, the process running as uid 65534 with and without no_new_privs (without, a refusal is expected and nil is only acceptable with every thread covered), the whole process under the UNAME26 personality so that uname(2) reports release 2.6.x); each is run once on the real kernel through the real LoadFilter; after an atomic 'load returned' flag every thread (including three born afterwards) probes getppid and reads its own /proc status, and /proc/self/task is scanned; plus all 32 single-bit flag words observed at the syscall seam and, for the defined bits, in strace's decoding of seccomp(2)"
	ctx.Assumptions = []string{"the interleaving of seccomp(2) with other threads inside the kernel cannot be scheduled from user space; one run per phase vector", "phase of blocked threads is confirmed through /proc/<tid>/syscall immediately before the load is released"}
	if replay != "" {
		return finishReplay(ctx)
	}
	return ctx.Finish()
}

// straceFlagCheck observes the flags argument after the syscall seam (what actually crosses into the kernel).
func straceFlagCheck(ctx *evid.Ctx) {
	if !straceWorks() {
		ctx.Cov["strace"] = "not available"
		return
	}
	self, _ := os.Executable()
	seen := 0
	for _, fl := range []uint32{0, 1, 2, 3, 4, 0x80} {
		sc := &histScript{Threads: 1, Ops: []histOp{{Op: "load", T: 0, Kind: "A", Flags: fl, NNP: true}}}
		in, _ := json.Marshal(sc)
		cctx, cancel := context.WithTimeout(context.Background(), 60*time.Second)
		cmd := exec.CommandContext(cctx, "strace", "-f", "-X", "raw", "-e", "trace=seccomp", self, "child", "hist")
		cmd.Stdin = bytes.NewReader(in)
		var se bytes.Buffer
		cmd.Stderr = &se
		cmd.Run()
		cancel()
		found := false
		for _, l := range strings.Split(se.String(), "\n") {
			if i := strings.Index(l, "seccomp(0x1, "); i >= 0 {
				rest := l[i+len("seccomp(0x1, "):]
				var got uint32
				if _, err := fmt.Sscanf(rest, "0x%x", &got); err != nil {
					fmt.Sscanf(rest, "%d", &got)
				}
				found = true
				seen++
				if got != fl {
					ctx.Violation(fmt.Sprintf("C10:strace-flags:%d", fl), fmt.Sprintf("Filter.Flag=%#x but seccomp(2) was entered with flags %#x: %s", fl, got, strings.TrimSpace(l)), map[string]any{"flag": fl})
				}
			}
		}
		if !found {
			ctx.Cov["strace"] = "no seccomp line decoded for some runs"
		}
	}
	ctx.Cov["strace_flag_words_seen"] = seen
}

// installCalls keeps the seccomp(2) calls that install a filter (SECCOMP_SET_MODE_FILTER).
func installCalls(seam []seamCall) []seamCall {
	var out []seamCall
	for _, c := range seam {
		if c.Op == 1 {
			out = append(out, c)
		}
	}
	return out
}
