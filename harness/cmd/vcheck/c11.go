package main

import (
	"fmt"
	seccomp "github.com/elastic/go-seccomp-bpf"
	ucfgyaml "github.com/elastic/go-ucfg/yaml"
	"os"
	"os/exec"
	"path/filepath"
	"strings"
	"sync/atomic"
	"time"

	"verif/harness/evid"
	"verif/harness/kmodel"
)

func init() { register("C11", checkC11) }

type c11Config struct {
	Unpriv bool      `json:"unprivileged"`
	Script nnpScript `json:"script"`
	Cgo    bool      `json:"cgo_linked_child,omitempty"` // the child is the cgo-linked build of the harness
}

var cgoLinked bool

// c11CgoBin builds the harness once more, linked with cgo, next to the public copy of this binary.
func c11CgoBin() (string, error) {
	out := filepath.Join(filepath.Dir(publicSelf()), "vcheck-cgo")
	args := []string{"build"}
	if mf := os.Getenv("VERIF_MODFILE"); mf != "" {
		args = append(args, "-modfile="+mf)
	}
	args = append(args, "-tags", "verif cgolink", "-o", out, "./cmd/vcheck")
	bc := exec.Command("go", args...)
	bc.Dir = filepath.Join(evid.Root(), "harness")
	bc.Env = append(os.Environ(), "CGO_ENABLED=1")
	if b, err := bc.CombinedOutput(); err != nil {
		return "", fmt.Errorf("%v %.300s", err, b)
	}
	os.Chmod(out, 0o755)
	return out, nil
}

// c11Histories: sequences of loads on different threads of one process (the no_new_privs bit is per thread, so the
// second load on another thread must set it again). Every step is judged on what /proc shows.
func c11Histories(ctx *evid.Ctx, tier string) (int64, int64) {
	var ops []kmodel.Op
	for t := 0; t < 2; t++ {
		for _, k := range []string{kmodel.KindA, kmodel.KindB} {
			for _, nnp := range []bool{true, false} {
				for _, ts := range []bool{false, true} {
					ops = append(ops, kmodel.Op{Op: "load", T: t, Kind: k, NNP: nnp, TSync: ts})
				}
			}
		}
	}
	var hs [][]kmodel.Op
	for _, a := range ops {
		for _, b := range ops {
			hs = append(hs, []kmodel.Op{a, b})
			if tier == "thorough" {
				for _, c := range ops {
					hs = append(hs, []kmodel.Op{a, b, c})
				}
			}
		}
	}
	var n, steps int64
	for _, priv := range []bool{false, true} {
		priv := priv
		parallelFor(len(hs), func(i int) {
			h := hs[i]
			hr := runHist(histScriptFor(h), !priv)
			perStep := 1 + c09Threads
			if hr.TimedOut || len(hr.Results) != perStep+len(h)*(1+perStep) {
				ctx.Capped("a C11 history child did not complete")
				return
			}
			atomic.AddInt64(&n, 1)
			model := kmodel.New(priv, c09Threads)
			nnpOf := func(base int) map[int]int {
				m := map[int]int{}
				for _, o := range hr.Results[base].State {
					m[o.Tid] = o.NNP
				}
				return m
			}
			filtOf := func(base int) map[int]int {
				m := map[int]int{}
				for _, o := range hr.Results[base].State {
					m[o.Tid] = o.Filters
				}
				return m
			}
			idx := perStep
			prevBase := 0
			for si, o := range h {
				res := hr.Results[idx]
				out := model.Apply(o)
				curBase := idx + 1
				before, after := nnpOf(prevBase), nnpOf(curBase)
				fb, fa := filtOf(prevBase), filtOf(curBase)
				atomic.AddInt64(&steps, 1)
				rep := map[string]any{"privileged": priv, "history": h[:si+1], "history_text": histString(h[:si+1])}
				cls := map[bool]string{true: "priv", false: "unpriv"}[priv]
				if o.NNP {
					if after[res.Tid] != 1 {
						ctx.Violation("C11:history:nnp-not-set:"+cls, fmt.Sprintf("NoNewPrivs requested but the bit is not set on the calling thread after step %d of [%s]", si+1, histString(h)), rep)
					}
					if res.Err != nil && out.Reason != "tsync-refused" {
						ctx.Violation("C11:history:load-failed:"+cls, fmt.Sprintf("NoNewPrivs requested, valid policy, yet LoadFilter failed at step %d of [%s]: %s", si+1, histString(h), *res.Err), rep)
					}
				} else {
					if !o.TSync {
						for tid, v := range after {
							if bv, ok := before[tid]; ok && bv != v {
								ctx.Violation("C11:history:nnp-changed-unrequested:"+cls, fmt.Sprintf("NoNewPrivs not requested but the bit of thread %d changed at step %d of [%s]", tid, si+1, histString(h)), rep)
							}
						}
					}
					if !priv && before[res.Tid] == 0 {
						if res.Err == nil {
							ctx.Violation("C11:history:unpriv-load-succeeded:"+cls, fmt.Sprintf("unprivileged load without no_new_privs returned nil at step %d of [%s]", si+1, histString(h)), rep)
						}
						for tid, v := range fa {
							if fb[tid] != v {
								ctx.Violation("C11:history:unpriv-load-installed:"+cls, fmt.Sprintf("unprivileged load without no_new_privs changed a filter count at step %d of [%s]", si+1, histString(h)), rep)
							}
						}
					}
				}
				prevBase = curBase
				idx += 1 + perStep
			}
		})
	}
	return n, steps
}

func checkC11(tier, replay string) int {
	ctx := evid.New("C11", tier, "model_checking")
	if !seccompAvailable() {
		ctx.Capped("seccomp(2) is not available here; nothing could be replayed")
		ctx.Cov["states"], ctx.Cov["transitions"], ctx.Cov["traces_validated_against_impl"] = 1, 1, 0
		ctx.Sample("seccomp unavailable")
		return ctx.Finish()
	}
	var cfgs []c11Config
	if replay != "" {
		var f struct {
			Case c11Config `json:"case"`
		}
		if err := readJSON(replay, &f); err != nil {
			fmt.Println(err)
			return 2
		}
		cfgs = []c11Config{f.Case}
	} else {
		reps := 1
		if tier == "thorough" {
			reps = 5
		}
		for r := 0; r < reps; r++ {
			for _, unpriv := range []bool{false, true} {
				for _, nnp := range []bool{true, false} {
					for _, fl := range []uint32{0, 1, 2, 3, 4, 5} { // 4 = SPEC_ALLOW: a flag the kernel accepts and the library has no name for
						for _, lm := range []bool{false, true} {
							cfgs = append(cfgs, c11Config{Unpriv: unpriv, Script: nnpScript{NNP: nnp, Flags: fl, Choice: "stay", LoaderMain: lm}})
							if fl < 2 {
								// what is requested does not depend on what the policy forbids: policies that restrict nothing
								for _, pk := range []string{"perm-emptydeny", "perm-allowgroup", "perm-log"} {
									cfgs = append(cfgs, c11Config{Unpriv: unpriv, Script: nnpScript{NNP: nnp, Flags: fl, Choice: "stay", LoaderMain: lm, Policy: pk}})
								}
							}
							if !lm {
								// the bit is per thread: the thread-group leader already has it, the loader's thread does not. What
								// /proc/self/status or any other process-wide view says is the leader's bit, not the loader's
								cfgs = append(cfgs, c11Config{Unpriv: unpriv, Script: nnpScript{NNP: nnp, Flags: fl, Choice: "stay", PreNNP: "leader"}})
							}
							if !unpriv {
								// prctl(2) itself is denied with EPERM by an outer filter: a requested bit cannot be set, so
								// nothing may be installed without it
								cfgs = append(cfgs, c11Config{Unpriv: unpriv, Script: nnpScript{NNP: nnp, Flags: fl, Choice: "stay", LoaderMain: lm, DenyPrctl: true}})
							}
							if nnp && fl < 2 && straceWorks() {
								// second schedule point: the thread is held inside prctl(2) by a tracer while the runtime hands its P to
								// a busy goroutine; an unpinned loader resumes on another thread
								cfgs = append(cfgs, c11Config{Unpriv: unpriv, Script: nnpScript{NNP: nnp, Flags: fl, Choice: "prctl-delay", LoaderMain: lm}})
							}
							for _, idle := range []int{0, 6} {
								for _, wire := range []int{0, 12} {
									cfgs = append(cfgs, c11Config{Unpriv: unpriv, Script: nnpScript{NNP: nnp, Flags: fl, Choice: "move", IdleMs: idle, WireIdle: wire, LoaderMain: lm}})
								}
							}
						}
					}
				}
			}
		}
	}
	var preNNP, cgoChildren int64
	cgoBin := ""
	if replay == "" || cfgs[0].Cgo {
		// build configuration: the same states in a cgo-linked process, where the runtime refuses process-wide system calls
		// and starts threads through the C library
		if b, err := c11CgoBin(); err != nil {
			ctx.Capped("a cgo-linked build of the harness is not possible here: " + err.Error())
		} else {
			cgoBin = b
			defer os.Remove(b)
			if replay == "" {
				for _, c := range append([]c11Config{}, cfgs...) {
					sc := c.Script
					if sc.Flags < 2 && !sc.DenyPrctl && (sc.Choice != "move" || sc.IdleMs == 0 && sc.WireIdle == 0) {
						cfgs = append(cfgs, c11Config{Unpriv: c.Unpriv, Script: sc, Cgo: true})
					}
				}
			}
		}
	}
	var children, moved, impossible, movedOld, movedNew, controlOK, delayCtl, delayMoved, delayStayed int64
	parallelFor(len(cfgs), func(i int) {
		c := cfgs[i]
		var rep nnpReport
		env := []string{}
		if c.Script.LoaderMain || c.Script.PreNNP == "leader" {
			env = append(env, "VERIF_LOCK_MAIN=1")
		}
		if c.Script.Choice == "prctl-delay" {
			env = append(env, "VERIF_PRCTL_DELAY=1")
		}
		if c.Cgo {
			if cgoBin == "" {
				return
			}
			env = append(env, "VERIF_CHILD_BIN="+cgoBin)
		}
		sig, exit, se, err := runChildJSON(60*time.Second, c.Unpriv, env, "nnp", c.Script, &rep)
		atomic.AddInt64(&children, 1)
		if err != nil || sig != 0 || exit != 0 {
			ctx.Flaky()
			ctx.Capped("a C11 child did not complete")
			fmt.Printf("HARNESS-ERROR C11 child failed for %+v: %v sig=%v exit=%d %.300s\n", c, err, sig, exit, se)
			return
		}
		cls := fmt.Sprintf("%s:nnp=%v:%s", map[bool]string{true: "unpriv", false: "priv"}[c.Unpriv], c.Script.NNP, c.Script.Choice)
		if c.Cgo {
			cls += ":cgo"
			if !rep.CgoLinked {
				ctx.Capped("a child that should be cgo-linked is not")
				return
			}
			atomic.AddInt64(&cgoChildren, 1)
		}
		if c.Script.PreNNP != "" {
			cls += ":pre-nnp-" + c.Script.PreNNP
			if !rep.PreNNPDone {
				ctx.Capped("the thread-group leader could not be given no_new_privs before the load")
				return
			}
			atomic.AddInt64(&preNNP, 1)
		}
		if c.Script.Choice == "prctl-delay" {
			if rep.ControlMoved {
				atomic.AddInt64(&delayCtl, 1)
			}
			if rep.Moved {
				atomic.AddInt64(&delayMoved, 1)
			} else if rep.SeamCalls > 0 {
				atomic.AddInt64(&delayStayed, 1)
			}
		}
		if c.Script.Choice == "move" {
			if rep.ControlMoved {
				atomic.AddInt64(&controlOK, 1)
			} else {
				ctx.Capped("thread migration could not be produced for the unpinned control goroutine of a child")
			}
			if rep.Moved {
				atomic.AddInt64(&moved, 1)
				if rep.TargetPreexisted {
					atomic.AddInt64(&movedOld, 1)
				} else {
					atomic.AddInt64(&movedNew, 1)
				}
			} else if rep.SeamCalls > 0 {
				atomic.AddInt64(&impossible, 1)
			}
		}
		countFilters := func(obs []threadObs) (n int, nnp int) {
			for _, o := range obs {
				n += o.Filters
				nnp += o.NNP
			}
			return
		}
		if rep.Err != nil && strings.Contains(*rep.Err, panicMark) {
			ctx.Violation("C11:load-panicked:"+cls, "LoadFilter panicked: "+*rep.Err, c)
			return
		}
		fAfter, nnpAfter := countFilters(rep.After)
		_, nnpBefore := countFilters(rep.Before)
		if c.Script.NNP {
			if rep.Err != nil && !c.Script.DenyPrctl {
				ctx.Violation("C11:load-failed:"+cls, fmt.Sprintf("NoNewPrivs was requested but LoadFilter failed: %s (prctl on thread %d, seccomp on thread %d, moved=%v, no_new_privs on the installing thread at the seam=%d)", *rep.Err, rep.PrctlTid, rep.SeamTid, rep.Moved, rep.NNPAtSeam), c)
			}
			if rep.SeamCalls > 0 && rep.NNPAtSeam != 1 {
				ctx.Violation("C11:nnp-not-on-installing-thread:"+cls, fmt.Sprintf("the thread that installs the filter (tid %d) does not have no_new_privs set when seccomp(2) is entered (prctl ran on tid %d)", rep.SeamTid, rep.PrctlTid), c)
			}
			if rep.Err == nil && fAfter == 0 && !c.Script.DenyPrctl {
				ctx.Violation("C11:nil-without-filter:"+cls, "LoadFilter returned nil but no thread carries a filter", c)
			}
		} else {
			if nnpAfter != nnpBefore || rep.NNPAtSeam == 1 {
				ctx.Violation("C11:nnp-set-unrequested:"+cls, fmt.Sprintf("NoNewPrivs was not requested but the bit changed (threads with the bit: %d -> %d, at seam %d)", nnpBefore, nnpAfter, rep.NNPAtSeam), c)
			}
			if c.Unpriv {
				if rep.Err == nil {
					ctx.Violation("C11:unpriv-load-succeeded:"+cls, "an unprivileged load without no_new_privs returned nil", c)
				}
				if fAfter != 0 {
					ctx.Violation("C11:unpriv-load-installed:"+cls, "an unprivileged load without no_new_privs installed a filter", c)
				}
			} else if rep.Err != nil && !c.Script.DenyPrctl {
				ctx.Violation("C11:priv-load-failed:"+cls, "a privileged load without no_new_privs failed: "+*rep.Err, c)
			}
		}
		if c.Unpriv && rep.Uid != 65534 {
			ctx.Capped("child did not run as uid 65534")
		}
		if i%41 == 0 {
			ctx.Sample(map[string]any{"config": c, "moved": rep.Moved, "migration_impossible": rep.MoveImpossible, "prctl_tid": rep.PrctlTid, "seccomp_tid": rep.SeamTid, "nnp_at_seam": rep.NNPAtSeam, "err": rep.Err})
		}
	})
	var histories, histSteps int64
	if replay == "" {
		histories, histSteps = c11Histories(ctx, tier)
	}
	ctx.Cov["multi_load_histories_replayed"] = histories
	ctx.Cov["multi_load_history_steps_checked"] = histSteps
	ctx.Cov["states"] = len(cfgs) + int(histories)
	ctx.Cov["transitions"] = children
	ctx.Cov["traces_validated_against_impl"] = children
	ctx.Cov["schedules_with_goroutine_moved_between_prctl_and_seccomp"] = moved
	ctx.Cov["loads_with_no_new_privs_already_set_on_the_thread_group_leader_only"] = preNNP
	ctx.Cov["configurations_run_in_a_cgo_linked_child"] = cgoChildren
	ctx.Cov["moved_to_preexisting_thread"] = movedOld
	ctx.Cov["moved_to_thread_born_during_load"] = movedNew
	ctx.Cov["schedules_where_migration_is_impossible_because_loader_is_wired_to_its_thread"] = impossible
	ctx.Cov["children_in_which_the_migration_manoeuvre_worked_on_an_unpinned_control_goroutine"] = controlOK
	ctx.Cov["prctl_held_by_tracer:children_in_which_an_unpinned_control_goroutine_resumed_on_another_thread"] = delayCtl
	ctx.Cov["prctl_held_by_tracer:loader_resumed_on_another_thread"] = delayMoved
	ctx.Cov["prctl_held_by_tracer:loader_stayed_on_its_thread"] = delayStayed
	// "requested" also means requested in a configuration: the documented keys of a Filter (no_new_privs, flag, policy) read
	// through the configuration loader must arrive in the fields LoadFilter looks at
	cfgForms := 0
	if replay == "" {
		for _, nnp := range []bool{true, false} {
			for _, fl := range []uint32{0, 1, 2, 3} {
				for _, form := range []string{"yaml", "json-as-yaml"} {
					var text string
					if form == "yaml" {
						text = fmt.Sprintf("filter:\n  no_new_privs: %v\n  flag: %d\n  policy:\n    default_action: allow\n    syscalls:\n    - action: errno\n      names:\n      - getppid\n", nnp, fl)
					} else {
						text = fmt.Sprintf(`{"filter": {"no_new_privs": %v, "flag": %d, "policy": {"default_action": "allow", "syscalls": [{"action": "errno", "names": ["getppid"]}]}}}`, nnp, fl)
					}
					cfgForms++
					conf, err := ucfgyaml.NewConfig([]byte(text))
					var c struct {
						Filter seccomp.Filter
					}
					if err == nil {
						err = conf.Unpack(&c)
					}
					rep := map[string]any{"config_text": text}
					if err != nil {
						ctx.Violation("C11:config:rejected", fmt.Sprintf("a filter written with the documented keys does not load: %v\n%s", err, text), rep)
						continue
					}
					if c.Filter.NoNewPrivs != nnp {
						ctx.Violation("C11:config:no_new_privs-lost", fmt.Sprintf("no_new_privs: %v in the configuration arrives as Filter.NoNewPrivs=%v (%s form)", nnp, c.Filter.NoNewPrivs, form), rep)
					}
					if uint32(c.Filter.Flag) != fl {
						ctx.Violation("C11:config:flag-lost", fmt.Sprintf("flag: %d in the configuration arrives as Filter.Flag=%d (%s form)", fl, c.Filter.Flag, form), rep)
					}
					if len(c.Filter.Policy.Syscalls) != 1 || c.Filter.Policy.DefaultAction != seccomp.ActionAllow {
						ctx.Violation("C11:config:policy-lost", fmt.Sprintf("the policy of a configured filter arrives as %+v (%s form)", c.Filter.Policy, form), rep)
					}
				}
			}
		}
	}
	ctx.Cov["filters_read_through_the_configuration_loader"] = cfgForms
	ctx.Cov["rule"] = "states = {privileged, uid 65534} x NoNewPrivs x flags {0,tsync,log,tsync|log,4 (SPEC_ALLOW),5} x {pure Go child, cgo-linked child (flags 0 and tsync)} x policy {one denied name; for flags 0 and tsync also three policies that restrict nothing} x loader on main / other goroutine (also with no_new_privs already set on the thread-group leader only, the loader being another thread) x thread placement at the single seam between prctl(2) and seccomp(2): stay, or forced migration (a helper goroutine takes over and wires itself to the loader's thread so that the runtime must resume the loader on another thread; with and without a pool of idle threads / with all idle threads wired), or - for NoNewPrivs loads with flags 0 and tsync, when strace is available - a second schedule point at the prctl itself (a tracer holds every prctl(2) in the kernel for 60 ms while the process has one P and a goroutine that never blocks, so that an unpinned goroutine resumes on another thread when the call returns); the manoeuvre is first shown to work on an unpinned control goroutine in the same process; each configuration runs the real LoadFilter in a fresh child; observed: result, tid and no_new_privs bit at the seam, per-thread NoNewPrivs/Seccomp before and after; plus every history of two (thorough: three) loads over two threads x {A,B} x NoNewPrivs x tsync in one process, privileged and unprivileged, judged step by step on /proc (the bit is per thread: a second load on another thread must set it again); plus a Filter written with the documented keys (no_new_privs x 4 flag words, YAML and JSON text) read through the ucfg loader: the fields LoadFilter looks at must hold what the text says"
	ctx.Assumptions = []string{"the only scheduling fact that matters between prctl and seccomp is which OS thread executes seccomp(2); instruction-level preemption inside the runtime is not enumerated", "if the loader is wired to its thread, migration is impossible and the property holds by construction (counted separately)"}
	if replay != "" {
		return finishReplay(ctx)
	}
	return ctx.Finish()
}
