package main

import (
	"crypto/sha256"
	"encoding/hex"
	"encoding/json"
	"fmt"
	"go/ast"
	"go/parser"
	"go/token"
	"io"
	"os"
	"os/exec"
	"path/filepath"
	"sort"
	"strconv"
	"strings"

	seccomp "github.com/elastic/go-seccomp-bpf"
	"github.com/elastic/go-seccomp-bpf/arch"

	"verif/harness/evid"
	"verif/harness/refsem"
)

func init() {
	register("C12", checkC12)
	childCmds["tablehash"] = func([]string) {
		out := map[string]string{}
		for name, info := range c12Tables() {
			out[name] = tableHash(info)
		}
		b, _ := json.Marshal(out)
		os.Stdout.Write(b)
	}
}

func c12Tables() map[string]*arch.Info {
	return map[string]*arch.Info{"arm": arch.ARM, "aarch64": arch.AARCH64, "i386": arch.I386, "x32": arch.X32, "x86_64": arch.X86_64}
}

func tableHash(info *arch.Info) string {
	var l []string
	for n, v := range info.SyscallNames {
		l = append(l, fmt.Sprintf("%s=%d", n, v))
	}
	for v, n := range info.SyscallNumbers {
		l = append(l, fmt.Sprintf("%d=%s", v, n))
	}
	sort.Strings(l)
	h := sha256.Sum256([]byte(strings.Join(l, ",")))
	return hex.EncodeToString(h[:8])
}

func caseVariants(s string) []string {
	out := []string{s, strings.ToUpper(s), strings.ToLower(s)}
	if len(s) > 1 {
		out = append(out, strings.ToUpper(s[:1])+s[1:], s[:1]+strings.ToUpper(s[1:]))
	}
	// every single-letter flip
	for i := range s {
		b := []byte(s)
		if b[i] >= 'a' && b[i] <= 'z' {
			b[i] -= 32
			out = append(out, string(b))
		}
	}
	return out
}

func checkC12(tier, replay string) int {
	ctx := evid.New("C12", tier, "exploration")
	o := refsem.LoadOracles()
	entries, compared, unoracled := 0, 0, 0
	tables := c12Tables()
	auditKey := map[string]string{"arm": "ARM", "aarch64": "AARCH64", "i386": "I386", "x32": "X86_64", "x86_64": "X86_64"}
	var tnames []string
	for n := range tables {
		tnames = append(tnames, n)
	}
	sort.Strings(tnames)
	for _, tn := range tnames {
		info := tables[tn]
		// (a) mutual inverses, no name with two numbers
		byName := map[string][]int{}
		for num, name := range info.SyscallNumbers {
			byName[name] = append(byName[name], num)
			entries++
			got, ok := info.SyscallNames[name]
			if !ok {
				ctx.Violation(fmt.Sprintf("C12:%s:missing-name:%s", tn, name), fmt.Sprintf("%s: number %d is named %q but the name table has no such name", tn, num, name), map[string]any{"table": tn, "name": name, "number": num})
			} else if got != num && len(byName[name]) == 1 {
				_ = got // reported below as duplicate once all numbers of the name are known
			}
		}
		var dupNames []string
		for name, nums := range byName {
			if len(nums) > 1 {
				dupNames = append(dupNames, name)
			}
		}
		sort.Strings(dupNames)
		for _, name := range dupNames {
			nums := byName[name]
			sort.Ints(nums)
			ctx.Violation(fmt.Sprintf("C12:%s:dup:%s", tn, name), fmt.Sprintf("%s: name %q has %d numbers %v, so the name-to-number lookup is ambiguous (this process resolved it to %d)", tn, name, len(nums), nums, info.SyscallNames[name]), map[string]any{"table": tn, "name": name, "numbers": nums})
		}
		for name, num := range info.SyscallNames {
			entries++
			if back, ok := info.SyscallNumbers[num]; !ok || back != name {
				if len(byName[name]) <= 1 {
					ctx.Violation(fmt.Sprintf("C12:%s:not-inverse:%s", tn, name), fmt.Sprintf("%s: name %q -> %d but %d -> %q", tn, name, num, num, back), map[string]any{"table": tn, "name": name})
				}
			}
		}
		if len(info.SyscallNames) == 0 || len(info.SyscallNumbers) == 0 {
			ctx.Violation("C12:"+tn+":empty", tn+": empty table", nil)
		}
		// (b) agreement with every independent source that lists the name
		for num, name := range info.SyscallNumbers {
			listed := false
			for src, t := range o.Tables[tn] {
				if ov, ok := t[name]; ok {
					listed = true
					compared++
					if ov != num && len(byName[name]) == 1 {
						ctx.Violation(fmt.Sprintf("C12:%s:number:%s", tn, name), fmt.Sprintf("%s: %q is %d in the library but %d in %s", tn, name, num, ov, src), map[string]any{"table": tn, "name": name, "library": num, "oracle": ov, "source": src})
					}
				}
			}
			if !listed {
				unoracled++
			}
		}
		// (c) audit architecture
		if uint32(info.ID) != o.AuditArch[auditKey[tn]] {
			ctx.Violation("C12:"+tn+":audit-arch", fmt.Sprintf("%s: ID %#x, kernel AUDIT_ARCH_%s is %#x", tn, uint32(info.ID), auditKey[tn], o.AuditArch[auditKey[tn]]), nil)
		}
	}
	// x32 mask
	if arch.X32.SeccompMask != 0x40000000 || arch.X86_64.SeccompMask != 0 || arch.I386.SeccompMask != 0 || arch.ARM.SeccompMask != 0 || arch.AARCH64.SeccompMask != 0 {
		ctx.Violation("C12:mask", "syscall number masks are wrong", nil)
	}
	// (c') every architecture variable's audit id
	tableless := map[string]*arch.Info{"PPC": arch.PPC, "PPC64": arch.PPC64, "PPC64LE": arch.PPC64LE, "S390": arch.S390, "S390X": arch.S390X, "MIPS": arch.MIPS,
		"MIPSEL": arch.MIPSEL, "MIPS64": arch.MIPS64, "MIPS64N32": arch.MIPS64N32, "MIPSEL64": arch.MIPSEL64, "MIPSEL64N32": arch.MIPSEL64N32}
	for k, info := range tableless {
		if uint32(info.ID) != o.AuditArch[k] {
			ctx.Violation("C12:audit-arch:"+k, fmt.Sprintf("%s: ID %#x, kernel AUDIT_ARCH_%s is %#x", info.Name, uint32(info.ID), k, o.AuditArch[k]), nil)
		}
		if len(info.SyscallNames) != 0 || len(info.SyscallNumbers) != 0 {
			ctx.Violation("C12:tableless-has-table:"+k, info.Name+" unexpectedly has a table (harness oracle out of date?)", nil)
		}
	}
	// (d) aliases, any letter case
	aliasGroups := map[*arch.Info][]string{arch.X86_64: {"amd64", "x86_64"}, arch.I386: {"386", "i386"}, arch.AARCH64: {"arm64", "aarch64"}, arch.X32: {"x32"}, arch.ARM: {"arm"}}
	aliasChecks := 0
	for want, names := range aliasGroups {
		for _, n := range names {
			for _, v := range caseVariants(n) {
				aliasChecks++
				got, err := arch.GetInfo(v)
				if err != nil || got != want {
					ctx.Violation("C12:alias:"+v, fmt.Sprintf("GetInfo(%q) = %v, %v; want the %s table", v, got, err, want.Name), map[string]any{"name": v})
				}
			}
		}
	}
	// (e) table-less and unknown names are unsupported
	// every architecture the kernel has an AUDIT_ARCH name for, other than the five with tables, in the kernel's spelling
	var auditOnly []string
	for k := range o.AuditArch {
		n := strings.ToLower(k)
		switch n {
		case "x86_64", "i386", "arm", "aarch64":
		default:
			auditOnly = append(auditOnly, n)
		}
	}
	sort.Strings(auditOnly)
	unsupported := append(auditOnly, "armbe", "ppc", "ppc64", "ppc64le", "s390", "s390x", "mips", "mipsle", "mips64", "mips64n32", "mips64p32", "mipsel64", "mips64le", "mipsel64n32", "mips64p32le",
		"riscv64", "loong64", "wasm", "sparc64", "x86", "x64", "amd64 ", " amd64", "amd", "i486", "armv7", "arm64be", "aarch32", "x86-64", "X86_64\x00", "unknown", "\x00")
	for _, n := range unsupported {
		for _, v := range caseVariants(n) {
			aliasChecks++
			got, err := arch.GetInfo(v)
			if err == nil && got != nil && len(got.SyscallNames) > 0 && len(got.SyscallNumbers) > 0 {
				// an architecture that has been given a table of its own since is fine - if it is its own: the identifier has to
				// be the kernel's for that name
				if want, ok := o.AuditArch[strings.ToUpper(n)]; ok && uint32(got.ID) == want {
					continue
				}
			}
			if err == nil || got != nil {
				ctx.Violation("C12:unsupported:"+n, fmt.Sprintf("GetInfo(%q) = %v, %v; want an unsupported-architecture error", v, got, err), map[string]any{"name": v})
			}
		}
	}
	if got, err := arch.GetInfo(""); err != nil || got != arch.X86_64 {
		ctx.Violation("C12:default", fmt.Sprintf("GetInfo(\"\") on an amd64 host = %v, %v", got, err), nil)
	}
	// (f) determinism across processes
	self, _ := os.Executable()
	procs := 8
	if tier == "thorough" {
		procs = 32
	}
	hashes := make([]map[string]string, procs)
	parallelFor(procs, func(i int) {
		out, err := exec.Command(self, "child", "tablehash").Output()
		if err == nil {
			json.Unmarshal(out, &hashes[i])
		}
	})
	distinct := map[string]map[string]bool{}
	for _, h := range hashes {
		for t, v := range h {
			if distinct[t] == nil {
				distinct[t] = map[string]bool{}
			}
			distinct[t][v] = true
		}
	}
	for t, set := range distinct {
		if len(set) > 1 {
			ctx.Violation("C12:"+t+":nondeterministic", fmt.Sprintf("%s: the name table differs between %d fresh processes (%d distinct contents)", t, procs, len(set)), map[string]any{"table": t})
		}
	}
	// (i) every audit-architecture constant the package declares (arch/zarches.go), used by an exported Info or not, against
	// the kernel's AUDIT_ARCH_* of the same name
	consts := c12AuditConstants(ctx)
	ctx.Cov["audit_constants_declared_and_compared"] = consts
	// (g) the tables are read-only data: no sequence of library operations changes them
	stabSeqs, stabOps := c12Stability(ctx, tier)
	ctx.Cov["operation_sequences_after_which_the_tables_were_rehashed"] = stabSeqs
	ctx.Cov["operation_alphabet"] = stabOps
	// (h) the generator of the tables: regeneration is a fixed point, and its ABI filters agree with an independent model
	genRuns := c12Generator(ctx, tier)
	ctx.Cov["generator_runs_compared"] = genRuns
	ctx.Cov["evaluations"] = entries + compared + aliasChecks + stabSeqs + genRuns
	ctx.Cov["distinct_nontrivial"] = compared
	ctx.Cov["table_entries_checked_both_directions"] = entries
	ctx.Cov["entries_compared_with_an_independent_source"] = compared
	ctx.Cov["entries_no_oracle_lists"] = unoracled
	ctx.Cov["alias_and_unsupported_spellings"] = aliasChecks
	ctx.Cov["fresh_processes_compared"] = procs
	ctx.Cov["rule"] = "every (number, name) and (name, number) entry of the five tables is checked for mutual inversion and unambiguity, compared with every independent source that lists the name (kernel UAPI unistd headers of this image, Go's syscall tables, x/sys v0.48 tables; vendored in oracles.json) and for name agreement at the same number; every architecture variable's ID and every auditArch* constant declared in arch/*.go with AUDIT_ARCH_* from linux/audit.h; every kernel audit-architecture name without a table must be unsupported; every alias in all single-letter case variants; 31 table-less or unknown names in case variants; table contents across fresh processes; table contents (commutative hash of both maps of all five tables plus ID/Name) after every sequence of library operations up to the stated depth over an alphabet of Validate/Assemble/Dump with canonical, re-cased, SYS_/__NR_/sys_-prefixed, foreign-architecture, numeric, empty and unknown names on every architecture, with and without conditions, and GetInfo with alias/unsupported spellings - the state must stay the initial one; the generator arch/mk_syscalls_linux.go of the tree is built and run offline against a local mirror (CONNECT proxy + throw-away certificate): once on kernel source files reconstructed from the checked-in tables with extra oabi rows, comments, __NR3264_ defines, sync_file_range2 and the __NR_syscalls sentinel (the output must be the checked-in tables again) and on 27 synthetic trees = every assignment of ABI columns {common,64,x32} / {common,oabi,eabi} to three rows (the output must equal an independent model of the ABI rules); non-trivial = entries for which an independent source exists"
	ctx.Sample(map[string]any{"table": "x86_64", "name": "execve", "library": arch.X86_64.SyscallNames["execve"], "kernel_uapi": o.Tables["x86_64"]["kernel_uapi"]["execve"], "go_syscall": o.Tables["x86_64"]["go_syscall"]["execve"]})
	ctx.Sample(map[string]any{"alias": "AMD64", "resolves_to": "x86_64"})
	ctx.Assumptions = []string{"oracles.json was generated from this image's kernel headers and Go/x-sys sources by oracles/gen.py (provenance inside the file)", "a source that does not list a name says nothing about it"}
	return finishOrReplay(ctx, replay)
}

// c12State is a commutative digest of everything the tables expose.
func c12State() uint64 {
	var sum uint64
	mix := func(s string, v int) uint64 {
		h := uint64(14695981039346656037)
		for i := 0; i < len(s); i++ {
			h = (h ^ uint64(s[i])) * 1099511628211
		}
		h = (h ^ uint64(uint32(v))) * 1099511628211
		return h ^ h>>29
	}
	for tn, info := range c12Tables() {
		t := mix(tn+"/"+info.Name, int(info.ID))
		for n, v := range info.SyscallNames {
			t += mix("n:"+n, v) * 3
		}
		for v, n := range info.SyscallNumbers {
			t += mix("v:"+n, v) * 5
		}
		t += uint64(len(info.SyscallNames))<<32 + uint64(len(info.SyscallNumbers))
		sum += mix(tn, int(t)) + t*7
	}
	for _, n := range []string{"ppc64le", "s390x", "mips", "mips64", "riscv64"} {
		if i, err := arch.GetInfo(n); err == nil && i != nil {
			sum += mix("tableless:"+n, len(i.SyscallNames)+1)
		}
	}
	return sum
}

type c12Op struct {
	name string
	run  func()
}

func c12Stability(ctx *evid.Ctx, tier string) (int, int) {
	var ops []c12Op
	spell := []string{"execve", "EXECVE", "Execve", "SYS_execve", "__NR_execve", "sys_execve", "__NR_ptrace", "Openat", "59", "", "nosuchsyscall", "socketcall", "arm_fadvise64_64", "mmap2", "newfstatat", "_llseek", "execve\x00", " execve", "__X32_SYSCALL_BIT"}
	tabs := c12Tables()
	var tn []string
	for n := range tabs {
		tn = append(tn, n)
	}
	sort.Strings(tn)
	for _, an := range tn {
		info := tabs[an]
		for _, sp := range spell {
			for _, cond := range []bool{false, true} {
				for _, kind := range []string{"assemble", "validate", "dump"} {
					if kind != "assemble" && (cond || tier != "thorough" && len(sp) > 8) {
						continue
					}
					an, info, sp, cond, kind := an, info, sp, cond, kind
					ops = append(ops, c12Op{fmt.Sprintf("%s(%s,%q,cond=%v)", kind, an, sp, cond), func() {
						defer func() { recover() }()
						g := seccomp.SyscallGroup{Action: seccomp.ActionErrno}
						if cond {
							g.NamesWithCondtions = []seccomp.NameWithConditions{{Name: sp, Conditions: seccomp.ArgumentConditions{{Argument: 1, Operation: seccomp.Equal, Value: 7}}}}
						} else {
							g.Names = []string{sp}
						}
						p := &seccomp.Policy{DefaultAction: seccomp.ActionAllow, Syscalls: []seccomp.SyscallGroup{g}}
						seccomp.VerifSetArch(p, info)
						switch kind {
						case "assemble":
							p.Assemble()
						case "validate":
							p.Validate()
						default:
							p.Dump(io.Discard)
						}
					}})
				}
			}
		}
	}
	for _, n := range []string{"", "amd64", "AMD64", "x32", "arm64", "ppc64le", "mips", "s390x", "nosucharch", "SYS_amd64"} {
		n := n
		ops = append(ops, c12Op{fmt.Sprintf("GetInfo(%q)", n), func() { defer func() { recover() }(); arch.GetInfo(n) }})
	}
	init := c12State()
	seqs := 0
	bad := func(hist []string) {
		ctx.Violation("C12:tables-changed-by:"+hist[len(hist)-1], fmt.Sprintf("the architecture tables differ from their initial contents after %v", hist), map[string]any{"history": hist})
	}
	// depth 1: every operation from the initial state; depth 2: every ordered pair (a change that needs an earlier operation
	// to prepare it); in the thorough tier depth 3 over the operations of one architecture at a time
	changed := false
	for _, a := range ops {
		a.run()
		seqs++
		if c12State() != init {
			bad([]string{a.name})
			changed = true
			break
		}
	}
	if changed {
		return seqs, len(ops)
	}
	sizes := func() (n int) {
		for _, info := range tabs {
			n += len(info.SyscallNames)*100003 + len(info.SyscallNumbers)
		}
		return
	}
	initSizes := sizes()
	for _, a := range ops {
		for _, b := range ops {
			a.run()
			b.run()
			seqs++
			// quick tier: the map sizes after every pair, the full digest after every row of pairs
			if sizes() != initSizes || tier == "thorough" && c12State() != init {
				bad([]string{a.name, b.name})
				return seqs, len(ops)
			}
		}
		if c12State() != init {
			bad([]string{a.name, "(one of the operations of the alphabet after it)"})
			return seqs, len(ops)
		}
	}
	if tier == "thorough" {
		for _, an := range tn {
			var sub []c12Op
			for _, o := range ops {
				if strings.Contains(o.name, "("+an+",") && strings.HasPrefix(o.name, "assemble") {
					sub = append(sub, o)
				}
			}
			for _, a := range sub {
				for _, b := range sub {
					for _, c := range sub {
						a.run()
						b.run()
						c.run()
						seqs++
						if c12State() != init {
							bad([]string{a.name, b.name, c.name})
							return seqs, len(ops)
						}
					}
				}
			}
		}
	}
	return seqs, len(ops)
}

// c12AuditConstants parses the const declarations named auditArch<NAME> in the arch package of the tree under test.
func c12AuditConstants(ctx *evid.Ctx) int {
	repo := os.Getenv("VERIF_REPO")
	if repo == "" {
		repo = "/repo"
	}
	files, _ := filepath.Glob(filepath.Join(repo, "arch", "*.go"))
	o := refsem.LoadOracles()
	n := 0
	for _, f := range files {
		if strings.HasSuffix(f, "_test.go") {
			continue
		}
		fset := token.NewFileSet()
		af, err := parser.ParseFile(fset, f, nil, 0)
		if err != nil {
			continue
		}
		for _, d := range af.Decls {
			gd, ok := d.(*ast.GenDecl)
			if !ok || gd.Tok != token.CONST {
				continue
			}
			for _, sp := range gd.Specs {
				vs := sp.(*ast.ValueSpec)
				for i, id := range vs.Names {
					if !strings.HasPrefix(id.Name, "auditArch") || i >= len(vs.Values) {
						continue
					}
					lit, ok := vs.Values[i].(*ast.BasicLit)
					if !ok {
						continue
					}
					v, err := strconv.ParseUint(lit.Value, 0, 64)
					if err != nil {
						continue
					}
					name := strings.ToUpper(strings.TrimPrefix(id.Name, "auditArch"))
					want, listed := o.AuditArch[name]
					if !listed {
						continue // the kernel headers of this image have no constant of that name: nothing to compare with
					}
					n++
					if uint32(v) != want {
						ctx.Violation("C12:audit-constant:"+name, fmt.Sprintf("%s = %#x in %s, the kernel's AUDIT_ARCH_%s is %#x", id.Name, v, filepath.Base(f), name, want), map[string]any{"constant": id.Name})
					}
				}
			}
		}
	}
	return n
}
