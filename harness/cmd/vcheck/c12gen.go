package main

import (
	"bufio"
	"crypto/ecdsa"
	"crypto/elliptic"
	"crypto/rand"
	"crypto/tls"
	"crypto/x509"
	"crypto/x509/pkix"
	"encoding/pem"
	"fmt"
	"go/ast"
	"go/parser"
	"go/token"
	"math/big"
	"net"
	"net/http"
	"os"
	"os/exec"
	"path/filepath"
	"sort"
	"strconv"
	"strings"
	"sync"
	"time"

	"github.com/elastic/go-seccomp-bpf/arch"

	"verif/harness/evid"
)

// The checked-in tables are an artefact of arch/mk_syscalls_linux.go. This file binds the two: the generator of the tree
// under test is built and run, offline, against kernel source files that the harness serves itself (the generator only
// speaks https to raw.githubusercontent.com: it is pointed at a local CONNECT proxy through HTTPS_PROXY that terminates
// TLS with a throw-away certificate trusted through SSL_CERT_FILE), and its output is compared
//   (a) with the checked-in tables, for source files reconstructed from those tables (regeneration is a fixed point), and
//   (b) with an independent model of the ABI rules, for every assignment of ABI columns to the rows of small synthetic trees.

type kernelTree map[string]string // path below the version directory -> content

type genServer struct {
	mu    sync.Mutex
	trees map[string]kernelTree // version tag -> tree
	hits  map[string]int
	ln    net.Listener
	cert  string // PEM file
	tls   *tls.Config
}

func newGenServer(dir string) (*genServer, error) {
	key, err := ecdsa.GenerateKey(elliptic.P256(), rand.Reader)
	if err != nil {
		return nil, err
	}
	tmpl := &x509.Certificate{SerialNumber: big.NewInt(1), Subject: pkix.Name{CommonName: "raw.githubusercontent.com"},
		DNSNames: []string{"raw.githubusercontent.com"}, NotBefore: time.Now().Add(-time.Hour), NotAfter: time.Now().Add(24 * time.Hour),
		KeyUsage: x509.KeyUsageDigitalSignature | x509.KeyUsageCertSign, ExtKeyUsage: []x509.ExtKeyUsage{x509.ExtKeyUsageServerAuth},
		IsCA: true, BasicConstraintsValid: true}
	der, err := x509.CreateCertificate(rand.Reader, tmpl, tmpl, &key.PublicKey, key)
	if err != nil {
		return nil, err
	}
	certPEM := pem.EncodeToMemory(&pem.Block{Type: "CERTIFICATE", Bytes: der})
	certFile := filepath.Join(dir, "ca.pem")
	if err := os.WriteFile(certFile, certPEM, 0o644); err != nil {
		return nil, err
	}
	ln, err := net.Listen("tcp", "127.0.0.1:0")
	if err != nil {
		return nil, err
	}
	s := &genServer{trees: map[string]kernelTree{}, hits: map[string]int{}, ln: ln, cert: certFile,
		tls: &tls.Config{Certificates: []tls.Certificate{{Certificate: [][]byte{der}, PrivateKey: key}}}}
	go s.serve()
	return s, nil
}

func (s *genServer) serve() {
	for {
		c, err := s.ln.Accept()
		if err != nil {
			return
		}
		go s.handle(c)
	}
}

// handle: "CONNECT host:443" -> 200, then TLS, then plain HTTP/1.1 GETs on that connection.
func (s *genServer) handle(c net.Conn) {
	defer c.Close()
	c.SetDeadline(time.Now().Add(30 * time.Second))
	br := bufio.NewReader(c)
	req, err := http.ReadRequest(br)
	if err != nil || req.Method != http.MethodConnect {
		return
	}
	fmt.Fprintf(c, "HTTP/1.1 200 Connection established\r\n\r\n")
	tc := tls.Server(c, s.tls)
	defer tc.Close()
	tbr := bufio.NewReader(tc)
	for {
		r, err := http.ReadRequest(tbr)
		if err != nil {
			return
		}
		// /torvalds/linux/<version>/<path>
		p := strings.TrimPrefix(r.URL.Path, "/torvalds/linux/")
		i := strings.Index(p, "/")
		body, status := "not found\n", 404
		if i > 0 {
			s.mu.Lock()
			if t, ok := s.trees[p[:i]]; ok {
				if b, ok := t[p[i:]]; ok {
					body, status = b, 200
					s.hits[p[:i]+p[i:]]++
				}
			}
			s.mu.Unlock()
		}
		fmt.Fprintf(tc, "HTTP/1.1 %d X\r\nContent-Length: %d\r\nContent-Type: text/plain\r\n\r\n%s", status, len(body), body)
	}
}

func (s *genServer) close() { s.ln.Close() }

// runGenerator runs the built generator for one tree and parses the tables out of its output.
func (s *genServer) runGenerator(bin, scratch, version string, tree kernelTree) (map[string]map[int]string, map[string][]int, error) {
	s.mu.Lock()
	s.trees[version] = tree
	s.mu.Unlock()
	out := filepath.Join(scratch, "z-"+version+".go")
	defer os.Remove(out)
	tmp := filepath.Join(scratch, "tmp-"+version)
	os.MkdirAll(tmp, 0o755)
	defer os.RemoveAll(tmp)
	cmd := exec.Command(bin, "-out", out, "-version", version)
	cmd.Env = []string{"HTTPS_PROXY=http://" + s.ln.Addr().String(), "https_proxy=http://" + s.ln.Addr().String(), "SSL_CERT_FILE=" + s.cert, "SSL_CERT_DIR=/nonexistent", "TMPDIR=" + tmp, "HOME=" + tmp, "PATH=/usr/bin:/bin"}
	done := make(chan struct{})
	var b []byte
	var err error
	go func() { b, err = cmd.CombinedOutput(); close(done) }()
	select {
	case <-done:
	case <-time.After(60 * time.Second):
		cmd.Process.Kill()
		<-done
		return nil, nil, fmt.Errorf("generator did not finish within 60 s")
	}
	if err != nil {
		return nil, nil, fmt.Errorf("generator failed: %v: %.300s", err, b)
	}
	fset := token.NewFileSet()
	f, err := parser.ParseFile(fset, out, nil, 0)
	if err != nil {
		return nil, nil, fmt.Errorf("generator output does not parse: %v", err)
	}
	tables := map[string]map[int]string{}
	dups := map[string][]int{}
	for _, d := range f.Decls {
		gd, ok := d.(*ast.GenDecl)
		if !ok || gd.Tok != token.VAR {
			continue
		}
		for _, sp := range gd.Specs {
			vs := sp.(*ast.ValueSpec)
			if len(vs.Names) != 1 || len(vs.Values) != 1 || !strings.HasPrefix(vs.Names[0].Name, "syscalls") {
				continue
			}
			cl, ok := vs.Values[0].(*ast.CompositeLit)
			if !ok {
				continue
			}
			name := strings.TrimPrefix(vs.Names[0].Name, "syscalls")
			m := map[int]string{}
			for _, e := range cl.Elts {
				kv := e.(*ast.KeyValueExpr)
				k, _ := strconv.Atoi(kv.Key.(*ast.BasicLit).Value)
				v, _ := strconv.Unquote(kv.Value.(*ast.BasicLit).Value)
				if _, dup := m[k]; dup {
					dups[name] = append(dups[name], k)
				}
				m[k] = v
			}
			tables[name] = m
		}
	}
	return tables, dups, nil
}

func sortedKeys(m map[int]string) []int {
	var ks []int
	for k := range m {
		ks = append(ks, k)
	}
	sort.Ints(ks)
	return ks
}

// reconstructTree renders kernel source files whose correct reading is exactly the given tables, with additional rows and
// lines of every kind the generator has to leave out.
func reconstructTree(t map[string]map[int]string) kernelTree {
	tree := kernelTree{}
	var b strings.Builder
	b.WriteString("#\n# 64-bit system call numbers and entry vectors\n#\n# The format is:\n# <number> <abi> <name> <entry point>\n#\n# The abi is \"common\", \"64\" or \"x32\" for this file.\n#\n")
	union := map[int]bool{}
	for n := range t["X86_64"] {
		union[n] = true
	}
	for n := range t["X32"] {
		union[n] = true
	}
	var all []int
	for n := range union {
		all = append(all, n)
	}
	sort.Ints(all)
	for _, n := range all {
		n64, in64 := t["X86_64"][n]
		n32, in32 := t["X32"][n]
		switch {
		case in64 && in32 && n64 == n32:
			fmt.Fprintf(&b, "%d\tcommon\t%s\t\t\tsys_%s\n", n, n64, n64)
		case in64 && in32:
			fmt.Fprintf(&b, "%d\t64\t%s\t\t\tsys_%s\n%d\tx32\t%s\t\t\tcompat_sys_%s\n", n, n64, n64, n, n32, n32)
		case in64:
			fmt.Fprintf(&b, "%d\t64\t%s\t\t\tsys_%s\n", n, n64, n64)
		default:
			fmt.Fprintf(&b, "%d\tx32\t%s\t\t\tcompat_sys_%s\n", n, n32, n32)
		}
		if n == 334 {
			b.WriteString("\n#\n# a comment block and an empty line in the middle of the table\n#\n")
		}
	}
	tree["/arch/x86/entry/syscalls/syscall_64.tbl"] = b.String()
	b.Reset()
	b.WriteString("#\n# 32-bit system call numbers and entry vectors\n#\n# <number> <abi> <name> <entry point> <compat entry point>\n#\n")
	for _, n := range sortedKeys(t["386"]) {
		fmt.Fprintf(&b, "%d\ti386\t%s\t\t\tsys_%s\t\t\tcompat_sys_%s\n", n, t["386"][n], t["386"][n], t["386"][n])
	}
	tree["/arch/x86/entry/syscalls/syscall_32.tbl"] = b.String()
	const armBase = 0x0f0000
	b.Reset()
	b.WriteString("#\n# Linux system call numbers and entry vectors\n#\n# <num>\t<abi>\t<name>\t\t\t[<entry point>\t\t\t[<oabi compat entry point>]]\n#\n")
	oabiOnly := map[int]string{13: "time", 22: "umount", 25: "stime", 27: "alarm", 30: "utime", 76: "getrlimit", 82: "select", 89: "readdir", 90: "mmap", 102: "socketcall", 113: "syscall", 117: "ipc"}
	var armNums []int
	for _, n := range sortedKeys(t["ARM"]) {
		if n < armBase {
			armNums = append(armNums, n)
		}
	}
	for n := range oabiOnly {
		if _, clash := t["ARM"][n]; !clash {
			armNums = append(armNums, n)
		}
	}
	sort.Ints(armNums)
	for i, n := range armNums {
		if name, ok := t["ARM"][n]; ok {
			abi := "common"
			if i%17 == 5 {
				abi = "eabi"
			}
			fmt.Fprintf(&b, "%d\t%s\t%s\t\t\tsys_%s\n", n, abi, name, name)
		} else {
			fmt.Fprintf(&b, "%d\toabi\t%s\t\t\tsys_%s\n", n, oabiOnly[n], oabiOnly[n])
		}
	}
	tree["/arch/arm/tools/syscall.tbl"] = b.String()
	b.Reset()
	b.WriteString("/* SPDX-License-Identifier: GPL-2.0 WITH Linux-syscall-note */\n#ifndef _UAPI__ASM_ARM_UNISTD_H\n#define _UAPI__ASM_ARM_UNISTD_H\n\n#define __NR_OABI_SYSCALL_BASE\t0x900000\n#define __NR_SYSCALL_MASK\t0x0fffff\n\n#define __NR_SYSCALL_BASE\t0\n#define __NR_sync_file_range2\t\t__NR_arm_sync_file_range\n\n/*\n * The following SWIs are ARM private.\n */\n#define __ARM_NR_BASE\t\t\t(__NR_SYSCALL_BASE+0x0f0000)\n")
	for _, n := range sortedKeys(t["ARM"]) {
		if n >= armBase {
			fmt.Fprintf(&b, "#define __ARM_NR_%s\t\t(__ARM_NR_BASE+%d)\n", t["ARM"][n], n-armBase)
		}
	}
	b.WriteString("\n#endif\n")
	tree["/arch/arm/include/uapi/asm/unistd.h"] = b.String()
	b.Reset()
	b.WriteString("/* SPDX-License-Identifier: GPL-2.0 WITH Linux-syscall-note */\n#include <asm/bitsperlong.h>\n\n#ifndef __SYSCALL\n#define __SYSCALL(x, y)\n#endif\n\n")
	for i, n := range sortedKeys(t["AARCH64"]) {
		name := t["AARCH64"][n]
		pre := "__NR_"
		if i%23 == 7 {
			pre = "__NR3264_"
		}
		fmt.Fprintf(&b, "#define %s%s %d\n__SYSCALL(%s%s, sys_%s)\n", pre, name, n, pre, name, name)
		if name == "sync_file_range" {
			fmt.Fprintf(&b, "#ifdef __ARCH_WANT_SYNC_FILE_RANGE2\n#define __NR_sync_file_range2 %d\n__SYSCALL(__NR_sync_file_range2, sys_sync_file_range2)\n#else\n#endif\n", n)
		}
	}
	b.WriteString("\n#undef __NR_syscalls\n#define __NR_syscalls 463\n\n#if __BITS_PER_LONG == 64 && !defined(__SYSCALL_COMPAT)\n#define __NR_fcntl __NR3264_fcntl\n#endif\n")
	tree["/include/uapi/asm-generic/unistd.h"] = b.String()
	return tree
}

// syntheticTree: three rows in each .tbl file with the given ABI columns (digits of k in base 3), plus fixed rows.
func syntheticTree(k int) (kernelTree, map[string]map[int]string) {
	x86abi := []string{"common", "64", "x32"}
	armabi := []string{"common", "oabi", "eabi"}
	want := map[string]map[int]string{"X86_64": {}, "X32": {}, "386": {}, "ARM": {}, "AARCH64": {}}
	tree := kernelTree{}
	var x, a, i strings.Builder
	x.WriteString("# <number> <abi> <name> <entry point>\n\n")
	a.WriteString("# <num>\t<abi>\t<name>\n")
	i.WriteString("# <number> <abi> <name> <entry point> <compat entry point>\n")
	d := k
	for row := 0; row < 3; row++ {
		xa, aa := x86abi[d%3], armabi[(d+row)%3]
		d /= 3
		name := fmt.Sprintf("call%d", row)
		fmt.Fprintf(&x, "%d\t%s\t%s\t\t\tsys_%s\n", row, xa, name, name)
		if xa != "x32" {
			want["X86_64"][row] = name
		}
		if xa != "64" {
			want["X32"][row] = name
		}
		fmt.Fprintf(&a, "%d\t%s\t%s\t\t\tsys_%s\n", row, aa, name, name)
		if aa != "oabi" {
			want["ARM"][row] = name
		}
		fmt.Fprintf(&i, "%d\ti386\t%s\t\t\tsys_%s\n", row, name, name)
		want["386"][row] = name
	}
	// the same number twice under different ABIs with different names (as rt_sigaction 13 / 512 in the real file does not, but
	// the format allows), and a row without entry point
	x.WriteString("100\t64\tonly64\t\t\tsys_only64\n100\tx32\tonlyx32\t\t\tcompat_sys_onlyx32\n101\tcommon\tnoentry\n# trailing comment\n")
	want["X86_64"][100], want["X32"][100] = "only64", "onlyx32"
	want["X86_64"][101], want["X32"][101] = "noentry", "noentry"
	a.WriteString("7\toabi\told7\t\t\tsys_old7\n7\teabi\tnew7\t\t\tsys_new7\n")
	want["ARM"][7] = "new7"
	i.WriteString("9\ti386\tnine\n")
	want["386"][9] = "nine"
	tree["/arch/x86/entry/syscalls/syscall_64.tbl"] = x.String()
	tree["/arch/arm/tools/syscall.tbl"] = a.String()
	tree["/arch/x86/entry/syscalls/syscall_32.tbl"] = i.String()
	tree["/arch/arm/include/uapi/asm/unistd.h"] = "#define __ARM_NR_BASE\t\t\t(__NR_SYSCALL_BASE+0x0f0000)\n#define __ARM_NR_breakpoint\t\t(__ARM_NR_BASE+1)\n#define __ARM_NR_set_tls\t\t(__ARM_NR_BASE+5)\n#define __ARM_NR_COMPAT_BASE 7\n"
	want["ARM"][0x0f0001], want["ARM"][0x0f0005] = "breakpoint", "set_tls"
	tree["/include/uapi/asm-generic/unistd.h"] = "#define __NR_io_setup 0\n__SYSCALL(__NR_io_setup, sys_io_setup)\n#define __NR3264_fcntl 25\n#define __NR_sync_file_range 84\n#ifdef __ARCH_WANT_SYNC_FILE_RANGE2\n#define __NR_sync_file_range2 84\n#endif\n#undef __NR_syscalls\n#define __NR_syscalls 463\n#define __NR_fcntl __NR3264_fcntl\n"
	want["AARCH64"][0], want["AARCH64"][25], want["AARCH64"][84] = "io_setup", "fcntl", "sync_file_range"
	return tree, want
}

func diffTables(got, want map[int]string) string {
	var d []string
	for _, n := range sortedKeys(want) {
		if g, ok := got[n]; !ok {
			d = append(d, fmt.Sprintf("%d:%q missing", n, want[n]))
		} else if g != want[n] {
			d = append(d, fmt.Sprintf("%d is %q, want %q", n, g, want[n]))
		}
	}
	for _, n := range sortedKeys(got) {
		if _, ok := want[n]; !ok {
			d = append(d, fmt.Sprintf("%d:%q unexpected", n, got[n]))
		}
	}
	if len(d) > 6 {
		d = append(d[:6], fmt.Sprintf("... %d differences", len(d)))
	}
	return strings.Join(d, "; ")
}

// c12Generator returns the number of generator runs whose output was compared.
func c12Generator(ctx *evid.Ctx, tier string) int {
	repo := os.Getenv("VERIF_REPO")
	if repo == "" {
		repo = "/repo"
	}
	src := filepath.Join(repo, "arch", "mk_syscalls_linux.go")
	if _, err := os.Stat(src); err != nil {
		ctx.Violation("C12:generator:missing", "arch/mk_syscalls_linux.go is gone: the tables can no longer be regenerated", nil)
		return 0
	}
	scratch, err := os.MkdirTemp("", "c12gen")
	if err != nil {
		ctx.Capped("no scratch directory for the generator runs")
		return 0
	}
	defer os.RemoveAll(scratch)
	bin := filepath.Join(scratch, "mkgen")
	bc := exec.Command("go", "build", "-o", bin, "mk_syscalls_linux.go")
	bc.Dir = filepath.Join(repo, "arch")
	bc.Env = append(os.Environ(), "CGO_ENABLED=0", "GOFLAGS=-mod=mod")
	if out, err := bc.CombinedOutput(); err != nil {
		ctx.Violation("C12:generator:does-not-build", fmt.Sprintf("go build mk_syscalls_linux.go: %v: %.400s", err, out), nil)
		return 0
	}
	srv, err := newGenServer(scratch)
	if err != nil {
		ctx.Capped("cannot start the local mirror for the generator: " + err.Error())
		return 0
	}
	defer srv.close()
	runs := 0
	// (a) fixed point on the checked-in tables
	checked := map[string]map[int]string{"ARM": arch.ARM.SyscallNumbers, "AARCH64": arch.AARCH64.SyscallNumbers, "386": arch.I386.SyscallNumbers, "X32": arch.X32.SyscallNumbers, "X86_64": arch.X86_64.SyscallNumbers}
	got, dups, err := srv.runGenerator(bin, scratch, "v6.11", reconstructTree(checked))
	if err != nil {
		// a generator that cannot be run here is not a property verdict
		ctx.Capped("generator run failed (local mirror): " + err.Error())
		return 0
	}
	runs++
	for name, want := range checked {
		if d := diffTables(got[name], want); d != "" {
			ctx.Violation("C12:generator:regeneration-differs:"+name, fmt.Sprintf("regenerating from kernel files that say exactly what the checked-in %s table says yields another table: %s", name, d), map[string]any{"generator": "fixed-point", "table": name})
		}
		if len(dups[name]) > 0 {
			ctx.Violation("C12:generator:duplicate-keys:"+name, fmt.Sprintf("the regenerated %s table lists numbers twice (does not compile): %v", name, dups[name]), map[string]any{"generator": "fixed-point", "table": name})
		}
	}
	// (b) every assignment of ABI columns to three rows
	type res struct {
		k    int
		got  map[string]map[int]string
		dups map[string][]int
		err  error
		want map[string]map[int]string
	}
	results := make([]res, 27)
	parallelFor(27, func(k int) {
		tree, want := syntheticTree(k)
		g, d, err := srv.runGenerator(bin, scratch, fmt.Sprintf("syn%02d", k), tree)
		results[k] = res{k, g, d, err, want}
	})
	for _, r := range results {
		if r.err != nil {
			ctx.Violation("C12:generator:synthetic-run-failed", fmt.Sprintf("synthetic kernel tree %d: %v", r.k, r.err), map[string]any{"generator": "synthetic", "k": r.k})
			continue
		}
		runs++
		for name, want := range r.want {
			if d := diffTables(r.got[name], want); d != "" {
				ctx.Violation("C12:generator:abi-filter:"+name, fmt.Sprintf("synthetic kernel tree %d: table %s: %s", r.k, name, d), map[string]any{"generator": "synthetic", "k": r.k, "table": name})
			}
		}
	}
	return runs
}
