package main

import (
	"encoding/json"
	"fmt"
	"os"
	"os/exec"
	"path/filepath"
	"sort"
	"strings"
	"sync"
	"sync/atomic"
	"syscall"
	"time"

	seccomp "github.com/elastic/go-seccomp-bpf"

	"verif/harness/engine"
	"verif/harness/evid"
	"verif/harness/instr"
)

func init() {
	register("C13", checkC13)
	childCmds["c13texts"] = func([]string) {
		// distinct strings seen per value over many calls in this process
		out := map[string][]string{}
		add := func(k, v string) {
			for _, x := range out[k] {
				if x == v {
					return
				}
			}
			out[k] = append(out[k], v)
		}
		for i := 0; i < 512; i++ {
			for _, f := range []seccomp.FilterFlag{0, 1, 2, 3, 4, 5, 6, 7, 0x80000003} {
				add(fmt.Sprintf("FilterFlag(%d).String", uint32(f)), f.String())
				mt, _ := f.MarshalText()
				add(fmt.Sprintf("FilterFlag(%d).MarshalText", uint32(f)), string(mt))
			}
			for _, a := range append(append([]seccomp.Action{}, allNamed...), seccomp.ActionUserNotify, 0x1234) {
				add(fmt.Sprintf("Action(%#x).String", uint32(a)), a.String())
			}
		}
		// the bytes handed out by MarshalText belong to the caller: scribbling over them must not influence later conversions
		for _, a := range allNamed {
			mt, _ := a.MarshalText()
			want := a.String()
			for i := range mt {
				mt[i] = '#'
			}
			mt2, _ := a.MarshalText()
			if string(mt2) != want || a.String() != want {
				add(fmt.Sprintf("alias/Action(%#x).MarshalText", uint32(a)), "ALIASED: after the caller overwrote a returned text, the next conversion gives "+string(mt2))
			}
		}
		for _, f := range []seccomp.FilterFlag{1, 2, 3} {
			mt, _ := f.MarshalText()
			want := f.String()
			for i := range mt {
				mt[i] = '#'
			}
			mt2, _ := f.MarshalText()
			if string(mt2) != want {
				add(fmt.Sprintf("alias/FilterFlag(%d).MarshalText", uint32(f)), "ALIASED: after the caller overwrote a returned text, the next conversion gives "+string(mt2))
			}
		}
		// compiled programs of fixed policies
		for name, sc := range map[string]func() string{"x86_64": func() string { return c13Compile(c13Policy(refsemArch("x86_64"), 1)) }, "arm": func() string { return c13Compile(c13Policy(refsemArch("arm"), 0)) }} {
			for i := 0; i < 8; i++ {
				add("compile/"+name, sc())
			}
		}
		b, _ := json.Marshal(out)
		os.Stdout.Write(b)
	}
	childCmds["c13race"] = c13RaceChild
}

// c13FirstUse: the very first library calls of this process are 32 concurrent calls released together - compilations of
// distinct policy values that leave the architecture implicit, text conversions, look-ups and dumps (lazily initialised
// or memoised package state would be written here only).
func c13FirstUse() int {
	x := refsemArch("x86_64")
	var wg sync.WaitGroup
	res := make([]string, 32)
	start := make(chan struct{})
	for g := 0; g < 32; g++ {
		g := g
		p := c13Policy(x, g%2)
		seccomp.VerifSetArch(p, nil)
		wg.Add(1)
		go func() {
			defer wg.Done()
			<-start
			switch g % 4 {
			case 0, 1:
				res[g] = c13Compile(p)
			case 2:
				res[g] = c13Texts() // text forms of actions, operations and flag words (combined and unknown ones too)
			default:
				res[g] = c13Lookups() + c13Dump(p)
			}
		}()
	}
	close(start)
	wg.Wait()
	bad := 0
	for g := 4; g < 32; g++ {
		if res[g] != res[g%4] {
			bad++
			fmt.Printf("RESULT-MISMATCH first-use: goroutine %d differs from goroutine %d\n", g, g%4)
		}
	}
	return bad
}

// c13RaceChild runs the scenario bodies free-running (no scheduler) on many goroutines; built with -race.
func c13RaceChild(args []string) {
	scen := c13Scenarios()
	var names []string
	for n := range scen {
		if n != "same-value-twice" { // concurrent calls on the very same value are not required to be race-free
			names = append(names, n)
		}
	}
	sort.Strings(names)
	bad := 0
	if len(args) > 0 && args[0] == "first-use" {
		bad += c13FirstUse()
		fmt.Printf("RACE-PASS-DONE mismatches=%d\n", bad)
		return
	}
	for rep := 0; rep < 40; rep++ {
		for _, n := range names {
			bodies, check := scen[n]()
			var wg sync.WaitGroup
			for _, b := range bodies {
				for k := 0; k < 16/len(bodies); k++ {
					_ = k
				}
				b := b
				wg.Add(1)
				go func() { defer wg.Done(); b() }()
			}
			wg.Wait()
			if w := check(); w != "" {
				bad++
				fmt.Printf("RESULT-MISMATCH %s: %s\n", n, w)
			}
		}
		// 16 goroutines compiling distinct values that share backing arrays
		p := c13Policy(refsemArch("x86_64"), 1)
		var wg sync.WaitGroup
		res := make([]string, 16)
		for g := 0; g < 16; g++ {
			g := g
			q := *p
			wg.Add(1)
			go func() {
				defer wg.Done()
				switch g % 4 {
				case 0, 1:
					res[g] = c13Compile(&q)
				case 2:
					res[g] = c13Lookups()
				case 3:
					res[g] = c13Texts()
				}
			}()
		}
		wg.Wait()
		for g := 0; g < 16; g++ {
			if res[g] != res[g%4] {
				bad++
				fmt.Printf("RESULT-MISMATCH 16-goroutines: goroutine %d differs from goroutine %d\n", g, g%4)
			}
		}
	}
	fmt.Printf("RACE-PASS-DONE mismatches=%d\n", bad)
}

func checkC13(tier, replay string) int {
	ctx := evid.New("C13", tier, "model_checking")
	scratch, _ := os.MkdirTemp("", "c13")
	defer os.RemoveAll(scratch)
	repo := repoDir()
	// 1. instrument the current sources of the two library packages
	overlay := map[string]string{}
	totalPoints := 0
	var atomics []string
	for _, pk := range []struct{ dir, name string }{{".", "seccomp"}, {"./arch", "arch"}} {
		cmd := exec.Command("go", "list", "-tags", "verif", "-json", pk.dir)
		cmd.Dir = repo
		cmd.Env = append(os.Environ(), "GOOS=linux", "GOARCH=amd64")
		out, err := cmd.Output()
		if err != nil {
			fmt.Println("go list failed:", err)
			return 2
		}
		var lp goListPkg
		json.Unmarshal(out, &lp)
		var paths []string
		for _, f := range lp.GoFiles {
			paths = append(paths, filepath.Join(lp.Dir, f))
		}
		res, err := instr.Package(paths)
		if err != nil {
			fmt.Println("instrumentation failed:", err)
			return 2
		}
		for orig, r := range res {
			dst := filepath.Join(scratch, pk.name+"_"+filepath.Base(orig))
			os.WriteFile(dst, r.Source, 0o644)
			overlay[orig] = dst
			totalPoints += r.Points
			atomics = append(atomics, r.Atomics...)
		}
		hook := filepath.Join(scratch, pk.name+"_zz_verifpoint.go")
		os.WriteFile(hook, instr.HookSource(pk.name), 0o644)
		overlay[filepath.Join(lp.Dir, "zz_verifpoint.go")] = hook
	}
	sort.Strings(atomics)
	ob, _ := json.Marshal(map[string]any{"Replace": overlay})
	of := filepath.Join(scratch, "overlay.json")
	os.WriteFile(of, ob, 0o644)
	instrBin := filepath.Join(scratch, "vcheck-instr")
	args := []string{"build"}
	if mf := os.Getenv("VERIF_MODFILE"); mf != "" {
		args = append(args, "-modfile="+mf)
	}
	args = append(args, "-overlay", of, "-tags", "verif verifsched", "-o", instrBin, "./cmd/vcheck")
	bc := exec.Command("go", args...)
	bc.Dir = filepath.Join(evid.Root(), "harness")
	if b, err := bc.CombinedOutput(); err != nil {
		fmt.Printf("instrumented build failed (not a property verdict): %v\n%s\n", err, b)
		return 2
	}
	if keep := os.Getenv("VERIF_C13_KEEP"); keep != "" {
		copyFile(instrBin, keep)
		fmt.Println("kept instrumented binary at", keep)
		return 0
	}
	// solo results: every call of every scenario once, each as the only call of a fresh (uninstrumented) process
	c13Scenarios()
	type sk struct {
		name string
		i    int
	}
	var sks []sk
	for name, b := range c13Builders {
		calls, _ := b()
		for i := range calls {
			sks = append(sks, sk{name, i})
		}
	}
	parallelFor(len(sks), func(i int) { c13Solo(sks[i].name, sks[i].i) })
	soloFile := filepath.Join(scratch, "solo.json")
	c13SoloMu.Lock()
	sb, _ := json.Marshal(c13SoloCache)
	c13SoloMu.Unlock()
	os.WriteFile(soloFile, sb, 0o644)
	os.Setenv("VERIF_C13_SOLO", soloFile)
	phase := map[string]float64{}
	t0 := time.Now()
	lap := func(name string) { phase[name] = time.Since(t0).Seconds(); t0 = time.Now() }
	lap("instrument+build")
	// 2. exploration
	type job struct {
		scen           string
		bound, sh, nsh int
	}
	var jobs []job
	scens := []string{"shared-copies-small", "shared-copies", "shared-slices-two-archs", "two-archs", "assemble-dump", "assemble-getinfo", "assemble-texts", "same-value-twice"}
	b2 := map[string]bool{"shared-copies-small": true}
	if tier == "thorough" {
		for _, s := range scens {
			b2[s] = true
		}
	}
	if replay != "" {
		var f struct {
			Case struct {
				Scenario string `json:"scenario"`
				Choices  []int  `json:"choices"`
				PState   bool   `json:"process_state_history"`
			} `json:"case"`
		}
		if err := readJSON(replay, &f); err != nil {
			fmt.Println(err)
			return 2
		}
		if f.Case.PState {
			fmt.Println("replaying the process-state histories (compile; load a filter; compile again on two threads)")
			c13ProcessState(ctx)
			if ctx.NumViolations() > 0 {
				for _, l := range ctx.Describe() {
					fmt.Println(l)
				}
				fmt.Println("REPRODUCED")
				return 1
			}
			fmt.Println("not reproduced")
			return 0
		}
		cb, _ := json.Marshal(f.Case.Choices)
		out, _ := exec.Command(instrBin, "child", "c13explore", f.Case.Scenario, "0", "0", "1", string(cb)).Output()
		fmt.Println(string(out))
		if strings.Contains(string(out), `"what"`) {
			fmt.Println("REPRODUCED")
			return 1
		}
		fmt.Println("not reproduced")
		return 0
	}
	for _, s := range scens {
		if b2[s] {
			for sh := 0; sh < 16; sh++ {
				jobs = append(jobs, job{s, 2, sh, 16})
			}
		} else {
			jobs = append(jobs, job{s, 1, 0, 1})
		}
	}
	jobs = append(jobs, job{"three-threads", 1, 0, 1})
	tinyBound := 2
	if tier == "thorough" {
		tinyBound = 3
	}
	for sh := 0; sh < 16; sh++ {
		jobs = append(jobs, job{"shared-copies-tiny", tinyBound, sh, 16})
	}
	var execs, diverged, maxPoints int64
	outcomes := map[string]int64{}
	perScen := map[string]int64{}
	var mu sync.Mutex
	parallelFor(len(jobs), func(i int) {
		j := jobs[i]
		r := runCmd(45*time.Minute, append(os.Environ(), "GOMAXPROCS=1"), scratch, instrBin, "child", "c13explore", j.scen, fmt.Sprint(j.bound), fmt.Sprint(j.sh), fmt.Sprint(j.nsh))
		var wo c13WorkerOut
		if r.Exit != 0 || json.Unmarshal([]byte(strings.TrimSpace(r.Stdout)), &wo) != nil {
			ctx.Capped(fmt.Sprintf("exploration worker for %s failed: exit %d %.300s", j.scen, r.Exit, r.Stderr))
			return
		}
		atomic.AddInt64(&execs, wo.Execs)
		atomic.AddInt64(&diverged, wo.Diverged)
		mu.Lock()
		if int64(wo.MaxPoints) > maxPoints {
			maxPoints = int64(wo.MaxPoints)
		}
		for k, v := range wo.Outcomes {
			outcomes[k] += v
		}
		perScen[fmt.Sprintf("%s/bound%d", j.scen, j.bound)] += wo.Execs
		mu.Unlock()
		if wo.Stuck {
			ctx.Capped("exploration of scenario " + j.scen + " got stuck: the code under test blocks an operating system thread outside the instrumented scheduling points")
		} else if wo.Capped {
			ctx.Capped("execution cap hit in scenario " + j.scen)
		}
		for _, v := range wo.Viol {
			// replay the schedule twice in a fresh worker before believing it
			cb, _ := json.Marshal(v.Choices)
			rr := runCmd(5*time.Minute, os.Environ(), scratch, instrBin, "child", "c13explore", j.scen, "0", "0", "1", string(cb))
			var ro c13WorkerOut
			json.Unmarshal([]byte(strings.TrimSpace(rr.Stdout)), &ro)
			if len(ro.Viol) == 0 || !ro.Replayed {
				ctx.Flaky()
				continue
			}
			ctx.Violation("C13:schedule:"+j.scen+":"+clip(v.What, 60), fmt.Sprintf("scenario %s, schedule %v: %s", j.scen, v.Schedule, v.What), map[string]any{"scenario": j.scen, "choices": v.Choices, "schedule": v.Schedule})
		}
	})
	if diverged > 0 {
		ctx.Capped(fmt.Sprintf("%d schedules could not be replayed deterministically (nondeterministic step count in the code under test)", diverged))
	}
	lap("exploration")
	// 3. sequential histories: all sequences of length <= 4 over 9 operations
	histories, hsteps := c13Histories(ctx)
	// 4. text forms and compiled programs across fresh processes
	self, _ := os.Executable()
	procs := 8
	if tier == "thorough" {
		procs = 32
	}
	seen := map[string]map[string]bool{}
	var smu sync.Mutex
	parallelFor(procs, func(int) {
		out, err := exec.Command(self, "child", "c13texts").Output()
		if err != nil {
			return
		}
		var m map[string][]string
		json.Unmarshal(out, &m)
		smu.Lock()
		for k, vs := range m {
			if seen[k] == nil {
				seen[k] = map[string]bool{}
			}
			for _, v := range vs {
				seen[k][v] = true
			}
		}
		smu.Unlock()
	})
	distinctTexts := 0
	for k, set := range seen {
		if strings.HasPrefix(k, "alias/") {
			for v := range set {
				ctx.Violation("C13:text-aliased:"+strings.SplitN(k[6:], "(", 2)[0], k[6:]+": "+v, map[string]any{"what": k})
			}
			continue
		}
		distinctTexts += len(set)
		if len(set) > 1 {
			var vs []string
			for v := range set {
				vs = append(vs, clip(v, 80))
			}
			sort.Strings(vs)
			ctx.Violation("C13:nondeterministic:"+strings.SplitN(k, "(", 2)[0], fmt.Sprintf("%s is not a function of the value: %d distinct results over %d processes x 512 calls: %q", k, len(set), procs, vs), map[string]any{"what": k, "results": vs})
		}
	}
	stateHists, stateCompiles := c13ProcessState(ctx)
	lap("histories+texts")
	// 5. free-running race pass
	raceRuns := c13RacePass(ctx, scratch)
	lap("race-pass")
	ctx.Cov["phase_seconds"] = phase
	ctx.Cov["states"] = execs
	ctx.Cov["transitions"] = execs * maxPoints / 2
	ctx.Cov["traces_validated_against_impl"] = execs
	ctx.Cov["schedules_explored"] = execs
	ctx.Cov["schedules_per_scenario"] = perScen
	ctx.Cov["max_scheduling_points_in_one_execution"] = maxPoints
	ctx.Cov["scheduling_points_inserted_in_source"] = totalPoints
	ctx.Cov["functions_run_as_atomic_steps_because_they_iterate_maps"] = atomics
	ctx.Cov["distinct_observation_tuples"] = len(outcomes)
	ctx.Cov["sequential_histories"] = histories
	ctx.Cov["sequential_history_steps"] = hsteps
	ctx.Cov["fresh_processes_for_text_forms"] = procs
	ctx.Cov["process_state_histories"] = stateHists
	ctx.Cov["compilations_compared_across_process_states"] = stateCompiles
	ctx.Cov["distinct_text_results_seen"] = distinctTexts
	ctx.Cov["race_pass_runs"] = raceRuns
	ctx.Cov["rule"] = "the current sources of the library packages are rewritten (a scheduling point before every statement; functions that iterate maps run as atomic steps), compiled with go build -overlay and run under a cooperative scheduler; for each scenario (two copies sharing backing arrays, two architectures, Assemble||Dump, Assemble||GetInfo, Assemble||text conversions, same value twice, three threads) every schedule with at most 1 preemption (2 for the small and the tiny shared-copies scenarios; thorough: 2 for every two-thread scenario and 3 for the tiny one) is executed on the real code; oracle per schedule: each call returns what it returns alone and every input policy incl. spare slice capacity is bit-identical; a reported schedule is re-run in a fresh process (up to four times: it counts when two consecutive runs show the same violation at the same sites, the first run of a process having empty pools and caches); plus all operation histories of length <= 4 over 12 operations (incl. compiling a group of 60 names that is accepted / rejected for an unknown name / rejected for a duplicate, compiling two values that share one Syscalls slice for two architectures, and modifying a policy value that was compiled before), text forms over 512 calls in fresh processes, compilations of the same policy (five policies, one with every action as default / group action) before and after the process state changed in fresh children, also with the state changed before the first compilation of the process (a filter loaded on the compiling thread only / on every thread; one that answers EPERM to seccomp(2) itself; as root and as uid 65534; compiled on the loading thread and on another one): all results must equal the compilation in a process without filters, and a separate free-running -race pass of the same bodies"
	ctx.Sample(map[string]any{"scenario": "shared-copies", "threads": []string{"Assemble(p)", "Assemble(copy of p sharing Syscalls/Names/Conditions arrays)"}, "schedule_example": "thread 0 runs to filter.go:2xx, preempted, thread 1 runs to completion, thread 0 resumes"})
	ctx.Assumptions = []string{"scheduling points at statement granularity; unsynchronised accesses inside one statement are covered by the separate -race pass", "map iteration order cannot be controlled; it is covered by repetition across processes (miss probability < 1e-14 per process for the 2-key flag map)"}
	return ctx.Finish()
}

// c13Histories: all sequences of length <= 4 over 9 operations; every compilation must equal its solo result.
func c13Histories(ctx *evid.Ctx) (int64, int64) {
	x := refsemArch("x86_64")
	arm := refsemArch("arm")
	_ = arm
	c13Scenarios()
	soloP := c13Solo("hist-P", 0)
	soloDump := c13Solo("hist-P", 1)
	soloQ := c13Solo("hist-Q", 0)
	soloTexts := c13Solo("hist-Q", 1)
	i386 := refsemArch("i386")
	mkShared := func() (*seccomp.Policy, *seccomp.Policy) {
		p := &seccomp.Policy{DefaultAction: seccomp.ActionKillProcess, Syscalls: []seccomp.SyscallGroup{
			{Action: seccomp.ActionAllow, Names: []string{"read", "execve"}},
			{Action: seccomp.ActionErrno, Names: []string{"write"}, NamesWithCondtions: []seccomp.NameWithConditions{{Name: "exit", Conditions: seccomp.ArgumentConditions{{Argument: 0, Operation: seccomp.NotEqual, Value: 0}}}}},
			{Action: seccomp.ActionTrap, Names: []string{"fork"}}}}
		q := *p
		seccomp.VerifSetArch(p, x.Info)
		seccomp.VerifSetArch(&q, i386.Info)
		return p, &q
	}
	soloPext := c13Solo("hist-Pext", 0)
	soloSP := c13Solo("shared-slices-two-archs", 0)
	soloSQ := c13Solo("shared-slices-two-archs", 1)
	soloL := [3]string{c13Solo("hist-L", 0), c13Solo("hist-L", 1), c13Solo("hist-L", 2)}
	var n, steps int64
	// the histories are independent: one worker per first operation
	parallelFor(12, func(first int) {
		var ln, lsteps int64
		var seq []int
		var rec func()
		run := func() {
			ln++
			var large [3]*seccomp.Policy
			var snapL [3]string
			for i := range large {
				large[i] = c13Large(x, i)
				snapL[i] = c13Snapshot(large[i])
			}
			p := c13Policy(x, 1)
			q := c13Policy(arm, 0)
			snapP, snapQ := c13Snapshot(p), c13Snapshot(q)
			sp, sq := mkShared()
			extended := false
			for si, op := range seq {
				lsteps++
				var got, want string
				switch op {
				case 0, 1:
					got, want = c13Compile(p), soloP
					if extended {
						want = soloPext
					}
				case 2:
					cp := *p
					got, want = c13Compile(&cp), soloP
					if extended {
						want = soloPext
					}
				case 3:
					got, want = c13Compile(q), soloQ
				case 4:
					if extended {
						continue
					}
					got, want = c13Dump(p), soloDump
				case 5:
					got, want = c13Texts(), soloTexts
				case 6:
					got, want = c13Compile(sp), soloSP
				case 7:
					got, want = c13Compile(sq), soloSQ
				case 8:
					// the caller modifies the policy value it compiled before (one more group, another default) and compiles again:
					// the result must be that of an equal, freshly built policy
					if !extended {
						c13Extend(x, p)
						extended = true
						snapP = c13Snapshot(p)
					}
					got, want = c13Compile(p), soloPext
				case 9, 10, 11:
					// a group of 60 names: accepted, rejected for an unknown name, rejected for a duplicate - a rejected
					// compilation, too, must leave nothing behind that a later one can see
					got, want = c13Compile(large[op-9]), soloL[op-9]
				}
				if got != want {
					ctx.Violation(fmt.Sprintf("C13:history:op%d", op), fmt.Sprintf("history %v: step %d (op %d) gives a different result than the same call alone", seq, si, op), map[string]any{"history": append([]int{}, seq...)})
					return
				}
			}
			for i := range large {
				if c13Snapshot(large[i]) != snapL[i] {
					ctx.Violation("C13:history:input-modified", fmt.Sprintf("history %v modified a caller's policy", seq), map[string]any{"history": append([]int{}, seq...)})
				}
			}
			if c13Snapshot(p) != snapP || c13Snapshot(q) != snapQ {
				ctx.Violation("C13:history:input-modified", fmt.Sprintf("history %v modified a caller's policy", seq), map[string]any{"history": append([]int{}, seq...)})
			}
		}
		rec = func() {
			if len(seq) > 0 {
				run()
			}
			if len(seq) == 4 {
				return
			}
			for op := 0; op < 12; op++ {
				seq = append(seq, op)
				rec()
				seq = seq[:len(seq)-1]
			}
		}
		seq = append(seq, first)
		rec()
		atomic.AddInt64(&n, ln)
		atomic.AddInt64(&steps, lsteps)
	})
	return n, steps
}

func c13RacePass(ctx *evid.Ctx, scratch string) int {
	raceBin := filepath.Join(scratch, "vcheck-race")
	args := []string{"build", "-race"}
	if mf := os.Getenv("VERIF_MODFILE"); mf != "" {
		args = append(args, "-modfile="+mf)
	}
	args = append(args, "-tags", "verif", "-o", raceBin, "./cmd/vcheck")
	bc := exec.Command("go", args...)
	bc.Dir = filepath.Join(evid.Root(), "harness")
	bc.Env = append(os.Environ(), "CGO_ENABLED=1")
	if b, err := bc.CombinedOutput(); err != nil {
		ctx.Capped(fmt.Sprintf("race build not possible here: %v %.200s", err, b))
		return 0
	}
	runs := 4 + 48
	var fails int64
	parallelFor(runs, func(i int) {
		argv := []string{raceBin, "child", "c13race"}
		if i >= 4 {
			argv = append(argv, "first-use") // 48 fresh processes whose first library calls are concurrent (compilations, text conversions, look-ups, dumps)
		}
		r := runCmd(10*time.Minute, append(os.Environ(), "GORACE=halt_on_error=0 exitcode=66"), scratch, argv...)
		if strings.Contains(r.Stderr, "WARNING: DATA RACE") {
			atomic.AddInt64(&fails, 1)
			// key by the first two frames of the report
			lines := strings.Split(r.Stderr, "\n")
			var fr []string
			for _, l := range lines {
				l = strings.TrimSpace(l)
				if strings.HasPrefix(l, "github.com/elastic/go-seccomp-bpf") {
					fr = append(fr, strings.SplitN(l, "(", 2)[0])
					if len(fr) == 2 {
						break
					}
				}
			}
			ctx.Violation("C13:data-race:"+strings.Join(fr, "+"), "the race detector reports a data race between concurrent calls on distinct policy values:\n"+clip(r.Stderr, 1800), map[string]any{"report": clip(r.Stderr, 6000)})
		} else if strings.Contains(r.Stdout, "RESULT-MISMATCH") {
			ctx.Violation("C13:free-running-mismatch", "free-running goroutines: "+clip(r.Stdout, 600), map[string]any{"output": clip(r.Stdout, 3000)})
		} else if !strings.Contains(r.Stdout, "RACE-PASS-DONE") {
			ctx.Capped(fmt.Sprintf("race pass child failed: exit %d %.200s", r.Exit, r.Stderr))
		}
	})
	return runs
}

// c13ProcessState: "equal policies compile identically across repeated calls and across processes" includes processes and
// threads that are in different kernel states. Each history compiles one policy, changes the process state through the real
// LoadFilter (a harmless filter, or one that makes seccomp(2) itself fail with EPERM; on the loading thread or on all), and
// compiles again on the loader's thread and on another thread.
func c13ProcessState(ctx *evid.Ctx) (hists, compiles int64) {
	type job struct {
		kind, state string
		tsync       uint32
		priv        bool
		stateFirst  bool // the process state is changed before anything was compiled in that process
	}
	var jobs []job
	for _, k := range []string{"A", "B", "perm-log", "perm-twoallow", "actions"} {
		for _, st := range []string{"A", "denysec"} {
			for _, ts := range []uint32{0, 1} {
				for _, priv := range []bool{true, false} {
					jobs = append(jobs, job{k, st, ts, priv, false}, job{k, st, ts, priv, true})
				}
			}
		}
	}
	show := func(r histResult) string {
		if r.Err != nil {
			return "error: " + *r.Err
		}
		return fmt.Sprintf("%d instructions, hash %s", r.CompLen, r.Compiled)
	}
	// what the policy compiles to in this process, which has no filter and has not loaded or probed anything
	pristine := map[string]string{}
	for _, j := range jobs {
		if _, ok := pristine[j.kind]; ok {
			continue
		}
		cp := *kindPolicy(j.kind)
		var r histResult
		if insts, err := cp.Assemble(); err != nil {
			e := err.Error()
			r.Err = &e
		} else if raw, err := engine.Raw(insts); err == nil {
			sf := make([]syscall.SockFilter, len(raw))
			for i, x := range raw {
				sf[i] = syscall.SockFilter{Code: x.Op, Jt: x.Jt, Jf: x.Jf, K: x.K}
			}
			r.Compiled, r.CompLen = hashSock(sf), len(sf)
		}
		pristine[j.kind] = show(r)
	}
	parallelFor(len(jobs), func(i int) {
		j := jobs[i]
		sc := &histScript{Threads: 2, Ops: []histOp{
			{Op: "compile", T: 0, Kind: j.kind}, {Op: "compile", T: 1, Kind: j.kind},
			{Op: "load", T: 0, Kind: j.state, Flags: j.tsync, NNP: true},
			{Op: "compile", T: 0, Kind: j.kind}, {Op: "compile", T: 1, Kind: j.kind}, {Op: "compile", T: 0, Kind: j.kind}}}
		loadAt := 2
		if j.stateFirst {
			sc.Ops = sc.Ops[2:]
			loadAt = 0
		}
		hr := runHist(sc, !j.priv)
		if hr.TimedOut || len(hr.Results) != len(sc.Ops) {
			ctx.Capped("a process-state history child did not complete")
			return
		}
		atomic.AddInt64(&hists, 1)
		if hr.Results[loadAt].Err != nil {
			ctx.Capped("the state-changing load of a process-state history failed: " + *hr.Results[loadAt].Err)
			return
		}
		want := pristine[j.kind]
		for k, r := range hr.Results {
			if r.Op != "compile" {
				continue
			}
			atomic.AddInt64(&compiles, 1)
			if show(r) != want || r.Err != nil {
				where := "before"
				if k > loadAt {
					where = "after"
				}
				ctx.Violation("C13:depends-on-process-state:"+j.state, fmt.Sprintf("compiling policy %s on thread T%d %s a %s filter was loaded (thread-sync=%v, privileged=%v, first compilation of the process after the load: %v) gives %s; in a process without filters it gives %s", j.kind, r.T, where, j.state, j.tsync == 1, j.priv, j.stateFirst, show(r), want), map[string]any{"process_state_history": true, "kind": j.kind, "state": j.state, "tsync": j.tsync, "privileged": j.priv, "state_first": j.stateFirst})
				return
			}
		}
	})
	return
}
