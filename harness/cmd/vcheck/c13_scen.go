package main

import (
	"bytes"
	"encoding/binary"
	"encoding/json"
	"fmt"
	"os"
	"os/exec"
	"reflect"
	"strings"
	"sync"

	seccomp "github.com/elastic/go-seccomp-bpf"
	"github.com/elastic/go-seccomp-bpf/arch"
	"golang.org/x/net/bpf"

	"verif/harness/refsem"
)

// Scenario bodies shared by the scheduler-driven exploration (instrumented build), the sequential histories and the
// free-running race pass. A scenario returns the thread bodies and a check that compares every call with its solo result
// and every input with its snapshot.

const c13Sentinel = "\x00sentinel"

// c13Policy builds a policy whose slices all have spare capacity filled with sentinels.
func c13Policy(a *refsem.Arch, variant int) *seccomp.Policy {
	n := s1Names(a)
	names := make([]string, 0, 6)
	names = append(names, n[0], n[2])
	for i := len(names); i < cap(names); i++ {
		names = names[:i+1]
		names[i] = c13Sentinel
	}
	names = names[:2]
	conds := make(seccomp.ArgumentConditions, 0, 5)
	conds = append(conds, seccomp.Condition{Argument: 1, Operation: seccomp.Equal, Value: 1<<32 + 5}, seccomp.Condition{Argument: 0, Operation: seccomp.BitsSet, Value: 0x40})
	full := conds[:cap(conds)]
	for i := 2; i < len(full); i++ {
		full[i] = seccomp.Condition{Argument: 99, Operation: c13Sentinel, Value: 99}
	}
	nwc := make([]seccomp.NameWithConditions, 0, 10)
	nwc = append(nwc, seccomp.NameWithConditions{Name: n[1], Conditions: conds}, seccomp.NameWithConditions{Name: n[1], Conditions: conds[:1]})
	if variant != 2 {
		// several DIFFERENT conditional syscalls in one group: their order in the program must not depend on anything but the
		// policy (a compiler that collects them in a map emits them in the map's order)
		others := a.SortedNames()
		added := 0
		for i := 0; added < 2 && i < len(others); i += 37 {
			if o := others[i]; o != n[0] && o != n[1] && o != n[2] {
				nwc = append(nwc, seccomp.NameWithConditions{Name: o, Conditions: seccomp.ArgumentConditions{{Argument: uint32(added % 6), Operation: seccomp.NotEqual, Value: uint64(added)}}})
				added++
			}
		}
	}
	if variant == 2 { // small variant: one name, one entry with one condition
		names = names[:1]
		nwc = nwc[:1]
		nwc[0].Conditions = conds[:1]
	}
	fullN := nwc[:cap(nwc)]
	for i := len(nwc); i < len(fullN); i++ {
		fullN[i] = seccomp.NameWithConditions{Name: c13Sentinel}
	}
	groups := make([]seccomp.SyscallGroup, 0, 4)
	groups = append(groups, seccomp.SyscallGroup{Action: seccomp.ActionErrno, Names: names, NamesWithCondtions: nwc})
	if variant%2 == 1 {
		groups = append(groups, seccomp.SyscallGroup{Action: seccomp.ActionTrap, Names: names[:1]})
	}
	fullG := groups[:cap(groups)]
	for i := len(groups); i < len(fullG); i++ {
		fullG[i] = seccomp.SyscallGroup{Action: 0x7777}
	}
	// variant 1 has errno as its default action: the one action whose returned value (errno|EPERM) differs from the
	// constant the caller wrote, so a compiler that writes its defaulting back into the caller's policy shows
	def := seccomp.ActionAllow
	if variant == 1 {
		def = seccomp.ActionErrno
	}
	p := &seccomp.Policy{DefaultAction: def, Syscalls: groups}
	seccomp.VerifSetArch(p, a.Info)
	return p
}

// c13Extend appends one more group to p (in place: the same policy VALUE is modified, as a caller may do).
func c13Extend(a *refsem.Arch, p *seccomp.Policy) {
	p.Syscalls = append(p.Syscalls[:len(p.Syscalls):len(p.Syscalls)], seccomp.SyscallGroup{Action: seccomp.ActionKillProcess, Names: []string{s1Names(a)[2]}})
	p.DefaultAction = seccomp.ActionLog
}

func c13PolicyExt(a *refsem.Arch) *seccomp.Policy {
	p := c13Policy(a, 1)
	c13Extend(a, p)
	return p
}

// snapshot renders everything a caller can see of a policy, including the spare capacity of every slice.
func c13Snapshot(p *seccomp.Policy) string {
	var b strings.Builder
	fmt.Fprintf(&b, "default=%#x groups=%d/%d\n", uint32(p.DefaultAction), len(p.Syscalls), cap(p.Syscalls))
	for _, g := range p.Syscalls[:cap(p.Syscalls)] {
		fmt.Fprintf(&b, " g action=%#x names=%d/%d %q\n", uint32(g.Action), len(g.Names), cap(g.Names), g.Names[:cap(g.Names)])
		for _, e := range g.NamesWithCondtions[:cap(g.NamesWithCondtions)] {
			fmt.Fprintf(&b, "  e %q conds=%d/%d %v\n", e.Name, len(e.Conditions), cap(e.Conditions), e.Conditions[:cap(e.Conditions)])
		}
	}
	return b.String()
}

func c13Compile(p *seccomp.Policy) string {
	insts, err := p.Assemble()
	if err != nil {
		return "error: " + err.Error()
	}
	raw, err := bpf.Assemble(insts)
	if err != nil {
		return "raw error: " + err.Error()
	}
	var b bytes.Buffer
	binary.Write(&b, binary.LittleEndian, raw)
	return fmt.Sprintf("%d:%x", len(raw), b.Bytes())
}

func c13Dump(p *seccomp.Policy) string {
	var b bytes.Buffer
	if err := p.Dump(&b); err != nil {
		return "error: " + err.Error()
	}
	return b.String()
}

func c13Lookups() string {
	var b strings.Builder
	for _, n := range []string{"amd64", "X86_64", "386", "arm", "ARM64", "aarch64", "x32", "ppc64", "mips", "", "riscv64"} {
		info, err := arch.GetInfo(n)
		if err != nil {
			fmt.Fprintf(&b, "%s:err;", n)
		} else {
			fmt.Fprintf(&b, "%s:%s/%#x/%d;", n, info.Name, uint32(info.ID), len(info.SyscallNames))
		}
	}
	return b.String()
}

func c13Texts() string {
	var b strings.Builder
	for _, s := range []string{"allow", "ERRNO", "Kill_Process", "nope", "trap"} {
		var a seccomp.Action
		err := a.Unpack(s)
		fmt.Fprintf(&b, "%s:%#x:%v;", s, uint32(a), err != nil)
	}
	for _, a := range []seccomp.Action{seccomp.ActionAllow, seccomp.ActionErrno, seccomp.ActionKillProcess, 0x1234} {
		mt, _ := a.MarshalText()
		fmt.Fprintf(&b, "%s/%s;", a.String(), mt)
	}
	for _, s := range []string{"equal", "BITSSET", "LessOrEqual", "nope"} {
		var o seccomp.Operation
		err := o.Unpack(s)
		fmt.Fprintf(&b, "%s:%s:%v;", s, string(o), err != nil)
	}
	for _, f := range []seccomp.FilterFlag{0, 1, 2, 3, 4, 7} {
		mt, _ := f.MarshalText()
		fmt.Fprintf(&b, "%d=%s/%s;", uint32(f), f.String(), mt)
	}
	return b.String()
}

type c13WorkerOut struct {
	Scenario  string           `json:"scenario"`
	Bound     int              `json:"bound"`
	Shard     int              `json:"shard"`
	Execs     int64            `json:"executions"`
	Diverged  int64            `json:"diverged"`
	MaxPoints int              `json:"max_points"`
	Outcomes  map[string]int64 `json:"outcomes"`
	Capped    bool             `json:"capped"`
	Stuck     bool             `json:"stuck"`
	Viol      []c13Viol        `json:"violations"`
	Replayed  bool             `json:"replay_deterministic"`
}

type c13Viol struct {
	What     string   `json:"what"`
	Choices  []int    `json:"choices"`
	Schedule []string `json:"schedule"`
}

type c13Call struct {
	name string
	fn   func() string
}

type c13Setup func() (bodies []func(), check func() string)

// c13Builders maps a scenario name to the function that builds its calls and inputs (fresh state each time).
var c13Builders = map[string]func() ([]c13Call, []*seccomp.Policy){}

// c13Solo returns what call idx of a scenario returns when it is the only library call ever made in a fresh process.
// (Computing the "solo" result in the exploring process itself would let a defect that keeps state between calls - a
// cache, a pooled buffer - poison the expectation as well.)
var c13SoloCache = map[string]string{}
var c13SoloMu sync.Mutex

func c13Solo(scen string, idx int) string {
	key := fmt.Sprintf("%s/%d", scen, idx)
	c13SoloMu.Lock()
	defer c13SoloMu.Unlock()
	if v, ok := c13SoloCache[key]; ok {
		return v
	}
	if f := os.Getenv("VERIF_C13_SOLO"); f != "" && len(c13SoloCache) == 0 {
		// solo results computed once by the parent check (each in its own fresh process)
		if b, err := os.ReadFile(f); err == nil {
			json.Unmarshal(b, &c13SoloCache)
			if v, ok := c13SoloCache[key]; ok {
				return v
			}
		}
	}
	self, _ := os.Executable()
	cmd := exec.Command(self, "child", "c13solo", scen, fmt.Sprint(idx))
	cmd.Env = append(os.Environ(), "GOMAXPROCS=2")
	out, err := cmd.Output()
	v := string(out)
	if err != nil {
		v = "SOLO-CHILD-FAILED: " + err.Error()
	}
	c13SoloCache[key] = v
	return v
}

func init() {
	childCmds["c13solo"] = func(args []string) {
		c13Scenarios()
		b := c13Builders[args[0]]
		if b == nil {
			os.Exit(2)
		}
		calls, _ := b()
		var i int
		fmt.Sscan(args[1], &i)
		os.Stdout.WriteString(calls[i].fn())
	}
}

// mkScenario: calls[i] runs on logical thread i; policies are the inputs to snapshot.
func mkScenario(name string, build func() (calls []c13Call, inputs []*seccomp.Policy)) c13Setup {
	c13Builders[name] = build
	var solo []string
	return func() ([]func(), func() string) {
		calls, inputs := build()
		if solo == nil {
			solo = make([]string, len(calls))
			for i := range calls {
				solo[i] = c13Solo(name, i)
			}
		}
		snaps := make([]string, len(inputs))
		for i, p := range inputs {
			snaps[i] = c13Snapshot(p)
		}
		results := make([]string, len(calls))
		bodies := make([]func(), len(calls))
		for i := range calls {
			i := i
			bodies[i] = func() { results[i] = calls[i].fn() }
		}
		check := func() string {
			for i := range calls {
				if results[i] != solo[i] {
					return fmt.Sprintf("call %d (%s) returned a different result than when it is the only call of a fresh process: %s vs solo %s", i, calls[i].name, clip(results[i], 160), clip(solo[i], 160))
				}
			}
			for i, p := range inputs {
				if s := c13Snapshot(p); s != snaps[i] {
					return fmt.Sprintf("input policy %d was modified (including spare slice capacity):\nbefore:\n%s\nafter:\n%s", i, clip(snaps[i], 500), clip(s, 500))
				}
			}
			return ""
		}
		return bodies, check
	}
}

var c13ScenCache map[string]c13Setup

func c13Scenarios() map[string]c13Setup {
	if c13ScenCache != nil {
		return c13ScenCache
	}
	x, arm, i386 := refsem.ArchByName("x86_64"), refsem.ArchByName("arm"), refsem.ArchByName("i386")
	share := func() (*seccomp.Policy, *seccomp.Policy) {
		p := c13Policy(x, 1)
		q := *p // copy sharing Syscalls / Names / Conditions backing arrays
		return p, &q
	}
	m := map[string]c13Setup{}
	m["shared-copies"] = mkScenario("shared-copies", func() ([]c13Call, []*seccomp.Policy) {
		p, q := share()
		return []c13Call{{"Assemble(p)", func() string { return c13Compile(p) }}, {"Assemble(copy of p)", func() string { return c13Compile(q) }}}, []*seccomp.Policy{p, q}
	})
	m["shared-copies-small"] = mkScenario("shared-copies-small", func() ([]c13Call, []*seccomp.Policy) {
		p := c13Policy(x, 2)
		q := *p
		return []c13Call{{"Assemble(p)", func() string { return c13Compile(p) }}, {"Assemble(copy of p)", func() string { return c13Compile(&q) }}}, []*seccomp.Policy{p, &q}
	})
	m["shared-copies-tiny"] = mkScenario("shared-copies-tiny", func() ([]c13Call, []*seccomp.Policy) {
		// one group with one name, shared by two policy values: small enough for preemption bound 3
		names := make([]string, 1, 3)
		names[0] = s1Names(x)[1]
		full := names[:3]
		full[1], full[2] = c13Sentinel, c13Sentinel
		groups := make([]seccomp.SyscallGroup, 1, 2)
		groups[0] = seccomp.SyscallGroup{Action: seccomp.ActionErrno, Names: names}
		groups[:2][1] = seccomp.SyscallGroup{Action: 0x7777}
		p := &seccomp.Policy{DefaultAction: seccomp.ActionAllow, Syscalls: groups}
		seccomp.VerifSetArch(p, x.Info)
		q := *p
		return []c13Call{{"Assemble(p)", func() string { return c13Compile(p) }}, {"Assemble(copy of p)", func() string { return c13Compile(&q) }}}, []*seccomp.Policy{p, &q}
	})
	m["shared-slices-two-archs"] = mkScenario("shared-slices-two-archs", func() ([]c13Call, []*seccomp.Policy) {
		// one Syscalls slice, two policy values with different target architectures
		p := &seccomp.Policy{DefaultAction: seccomp.ActionKillProcess, Syscalls: []seccomp.SyscallGroup{
			{Action: seccomp.ActionAllow, Names: []string{"read", "execve"}},
			{Action: seccomp.ActionErrno, Names: []string{"write"}, NamesWithCondtions: []seccomp.NameWithConditions{{Name: "exit", Conditions: seccomp.ArgumentConditions{{Argument: 0, Operation: seccomp.NotEqual, Value: 0}}}}},
			{Action: seccomp.ActionTrap, Names: []string{"fork"}}}}
		q := *p
		seccomp.VerifSetArch(p, x.Info)
		seccomp.VerifSetArch(&q, i386.Info)
		return []c13Call{{"Assemble(p for x86_64)", func() string { return c13Compile(p) }}, {"Assemble(copy of p for i386)", func() string { return c13Compile(&q) }}}, []*seccomp.Policy{p, &q}
	})
	m["two-archs"] = mkScenario("two-archs", func() ([]c13Call, []*seccomp.Policy) {
		p, q := c13Policy(arm, 0), c13Policy(i386, 1)
		return []c13Call{{"Assemble(arm)", func() string { return c13Compile(p) }}, {"Assemble(i386)", func() string { return c13Compile(q) }}}, []*seccomp.Policy{p, q}
	})
	m["assemble-dump"] = mkScenario("assemble-dump", func() ([]c13Call, []*seccomp.Policy) {
		p, q := share()
		return []c13Call{{"Assemble(p)", func() string { return c13Compile(p) }}, {"Dump(copy of p)", func() string { return c13Dump(q) }}}, []*seccomp.Policy{p, q}
	})
	m["assemble-getinfo"] = mkScenario("assemble-getinfo", func() ([]c13Call, []*seccomp.Policy) {
		p := c13Policy(x, 0)
		seccomp.VerifSetArch(p, nil) // let Assemble look the architecture up itself
		return []c13Call{{"Assemble(p, default arch)", func() string { return c13Compile(p) }}, {"GetInfo(*)", c13Lookups}}, []*seccomp.Policy{p}
	})
	m["assemble-texts"] = mkScenario("assemble-texts", func() ([]c13Call, []*seccomp.Policy) {
		p := c13Policy(x, 1)
		return []c13Call{{"Assemble(p)", func() string { return c13Compile(p) }}, {"text conversions", c13Texts}}, []*seccomp.Policy{p}
	})
	m["same-value-twice"] = mkScenario("same-value-twice", func() ([]c13Call, []*seccomp.Policy) {
		p := c13Policy(x, 1)
		return []c13Call{{"Assemble(p)", func() string { return c13Compile(p) }}, {"Assemble(p) again, same value", func() string { return c13Compile(p) }}}, []*seccomp.Policy{p}
	})
	m["three-threads"] = mkScenario("three-threads", func() ([]c13Call, []*seccomp.Policy) {
		p, q := share()
		r := c13Policy(arm, 0)
		return []c13Call{{"Assemble(p)", func() string { return c13Compile(p) }}, {"Assemble(copy of p)", func() string { return c13Compile(q) }}, {"Assemble(arm)", func() string { return c13Compile(r) }}}, []*seccomp.Policy{p, q, r}
	})
	// sequential-history operations as one-call scenarios, so that their solo results also come from fresh processes
	m["hist-P"] = mkScenario("hist-P", func() ([]c13Call, []*seccomp.Policy) {
		p := c13Policy(x, 1)
		return []c13Call{{"Assemble(P)", func() string { return c13Compile(p) }}, {"Dump(P)", func() string { return c13Dump(p) }}}, []*seccomp.Policy{p}
	})
	m["hist-Q"] = mkScenario("hist-Q", func() ([]c13Call, []*seccomp.Policy) {
		q := c13Policy(arm, 0)
		return []c13Call{{"Assemble(Q)", func() string { return c13Compile(q) }}, {"texts", c13Texts}}, []*seccomp.Policy{q}
	})
	m["hist-Pext"] = mkScenario("hist-Pext", func() ([]c13Call, []*seccomp.Policy) {
		p := c13PolicyExt(x)
		return []c13Call{{"Assemble(P extended by one group, built fresh)", func() string { return c13Compile(p) }}}, []*seccomp.Policy{p}
	})
	// groups beyond any small-size threshold (60 names), valid and rejected (an unknown name in the middle; a duplicate)
	m["hist-L"] = mkScenario("hist-L", func() ([]c13Call, []*seccomp.Policy) {
		l, lu, ld := c13Large(x, 0), c13Large(x, 1), c13Large(x, 2)
		return []c13Call{{"Assemble(L)", func() string { return c13Compile(l) }}, {"Assemble(L with an unknown name)", func() string { return c13Compile(lu) }}, {"Assemble(L with a duplicate name)", func() string { return c13Compile(ld) }}}, []*seccomp.Policy{l, lu, ld}
	})
	c13ScenCache = m
	return m
}

// c13Large: one group of 60 names plus a conditional entry; defect 1 = an unknown name in the middle, 2 = a name twice.
func c13Large(a *refsem.Arch, defect int) *seccomp.Policy {
	all := a.SortedNames()
	names := make([]string, 0, 64)
	for i := 0; len(names) < 60 && i < len(all); i += 3 {
		names = append(names, all[i])
	}
	switch defect {
	case 1:
		names[30] = "no_such_syscall_xyz"
	case 2:
		names[41] = names[7]
	}
	p := &seccomp.Policy{DefaultAction: seccomp.ActionErrno, Syscalls: []seccomp.SyscallGroup{{Action: seccomp.ActionAllow, Names: names,
		NamesWithCondtions: []seccomp.NameWithConditions{{Name: all[1], Conditions: seccomp.ArgumentConditions{{Argument: 2, Operation: seccomp.LessThan, Value: 1 << 35}}}}}}}
	seccomp.VerifSetArch(p, a.Info)
	return p
}

var _ = reflect.DeepEqual
