//go:build verifsched

package main

import (
	"bytes"
	"encoding/json"
	"fmt"
	"os"
	"strconv"
	"sync/atomic"
	"time"

	seccomp "github.com/elastic/go-seccomp-bpf"
	"github.com/elastic/go-seccomp-bpf/arch"

	"verif/harness/sched"
)

// This file is only part of the instrumented build (go build -overlay ... -tags "verif verifsched"): the overlay adds
// VerifPoint / VerifAtomicEnter / VerifAtomicExit to the library packages and a point before every statement.
func init() {
	seccomp.VerifPoint = sched.Point
	arch.VerifPoint = sched.Point
	seccomp.VerifAtomicEnter, seccomp.VerifAtomicExit = sched.AtomicEnter, sched.AtomicExit
	arch.VerifAtomicEnter, arch.VerifAtomicExit = sched.AtomicEnter, sched.AtomicExit
	seccomp.VerifBlockUntil, arch.VerifBlockUntil = sched.BlockUntil, sched.BlockUntil
	childCmds["c13explore"] = c13Explore
}

// c13Explore <scenario> <bound> <shard> <nshards> [choices-json]
func c13Explore(args []string) {
	name := args[0]
	bound, _ := strconv.Atoi(args[1])
	shard, _ := strconv.Atoi(args[2])
	nshards, _ := strconv.Atoi(args[3])
	sc := c13Scenarios()[name]
	if sc == nil {
		fmt.Fprintln(os.Stderr, "unknown scenario", name)
		os.Exit(2)
	}
	out := c13WorkerOut{Scenario: name, Bound: bound, Shard: shard, Outcomes: map[string]int64{}}
	if len(args) > 4 {
		// replay one schedule, twice, and report
		var choices []int
		json.Unmarshal([]byte(args[4]), &choices)
		var sites [2][]string
		var whats [2]string
		for k := 0; k < 2; k++ {
			bodies, check := sc()
			e := sched.Run(choices, bodies)
			whats[k] = check()
			sites[k] = e.Sites()
			if e.Diverged != "" {
				whats[k] = "DIVERGED: " + e.Diverged
			}
		}
		s0, _ := json.Marshal(sites[0])
		s1, _ := json.Marshal(sites[1])
		out.Replayed = whats[0] == whats[1] && bytes.Equal(s0, s1)
		if whats[0] != "" {
			out.Viol = append(out.Viol, c13Viol{What: whats[0], Choices: choices})
		}
		b, _ := json.Marshal(out)
		os.Stdout.Write(append(b, '\n'))
		return
	}
	x := &sched.Explorer{Bound: bound, Setup: sc, Shard: shard, NShards: nshards, Outcomes: out.Outcomes}
	// watchdog: library code that blocks the operating system thread outside a scheduling point (a channel operation, a
	// lock form the instrumenter does not know) would hang the cooperative scheduler; give up instead of hanging
	go func() {
		last := int64(-1)
		for {
			time.Sleep(20 * time.Second)
			cur := atomic.LoadInt64(&x.Execs)
			if cur == last {
				out.Execs, out.Capped, out.Stuck = cur, true, true
				b, _ := json.Marshal(out)
				os.Stdout.Write(append(b, '\n'))
				os.Exit(0)
			}
			last = cur
		}
	}()
	x.Violation = func(choices []int, schedule []string, what string) {
		if len(out.Viol) < 5 {
			out.Viol = append(out.Viol, c13Viol{What: what, Choices: choices, Schedule: schedule})
		}
	}
	x.Explore()
	out.Execs, out.Diverged, out.MaxPoints, out.Capped = x.Execs, x.Diverged, x.MaxPoints, x.Capped
	b, _ := json.Marshal(out)
	os.Stdout.Write(append(b, '\n'))
}
