//go:build verifsched

package main

import (
	"bytes"
	"encoding/json"
	"fmt"
	"os"
	"strconv"
	"strings"
	"sync/atomic"
	"time"

	seccomp "github.com/elastic/go-seccomp-bpf"
	"github.com/elastic/go-seccomp-bpf/arch"

	"verif/harness/sched"
)

// This file is only part of the instrumented build (go build -overlay ... -tags "verif verifsched"): the overlay adds
// VerifPoint / VerifAtomicEnter / VerifAtomicExit to the library packages and a point before every statement.
func init() {
	seccomp.VerifPoint = sched.Point
	arch.VerifPoint = sched.Point
	seccomp.VerifAtomicEnter, seccomp.VerifAtomicExit = sched.AtomicEnter, sched.AtomicExit
	arch.VerifAtomicEnter, arch.VerifAtomicExit = sched.AtomicEnter, sched.AtomicExit
	seccomp.VerifBlockUntil, arch.VerifBlockUntil = sched.BlockUntil, sched.BlockUntil
	childCmds["c13explore"] = c13Explore
}

// c13Explore <scenario> <bound> <shard> <nshards> [choices-json]
func c13Explore(args []string) {
	name := args[0]
	bound, _ := strconv.Atoi(args[1])
	shard, _ := strconv.Atoi(args[2])
	nshards, _ := strconv.Atoi(args[3])
	sc := c13Scenarios()[name]
	if sc == nil {
		fmt.Fprintln(os.Stderr, "unknown scenario", name)
		os.Exit(2)
	}
	out := c13WorkerOut{Scenario: name, Bound: bound, Shard: shard, Outcomes: map[string]int64{}}
	if len(args) > 4 {
		// replay one schedule, twice, and report
		var choices []int
		json.Unmarshal([]byte(args[4]), &choices)
		// The schedule is run up to four times in this fresh process and counts as reproduced when two consecutive runs
		// show the same violation at the same sequence of sites. (State that the library keeps between calls - a pool, a
		// free list, a cache - is empty in the first run of a process and was not when the explorer found the schedule;
		// the later runs are the warmed-up process.)
		var sites [4][]byte
		var whats [4]string
		for k := 0; k < 4; k++ {
			bodies, check := sc()
			e := sched.Run(choices, bodies)
			whats[k] = check()
			sites[k], _ = json.Marshal(e.Sites())
			if e.Diverged != "" {
				whats[k] = "DIVERGED: " + e.Diverged
			}
			if k > 0 && whats[k] != "" && !strings.HasPrefix(whats[k], "DIVERGED") && whats[k] == whats[k-1] && bytes.Equal(sites[k], sites[k-1]) {
				out.Replayed = true
				out.Viol = append(out.Viol, c13Viol{What: whats[k], Choices: choices})
				break
			}
			if k == 1 && whats[0] == "" && whats[1] == "" {
				break
			}
		}
		if !out.Replayed {
			for k := range whats {
				if whats[k] != "" {
					out.Viol = append(out.Viol, c13Viol{What: whats[k], Choices: choices})
					break
				}
			}
		}
		b, _ := json.Marshal(out)
		os.Stdout.Write(append(b, '\n'))
		return
	}
	x := &sched.Explorer{Bound: bound, Setup: sc, Shard: shard, NShards: nshards, Outcomes: out.Outcomes}
	// watchdog: library code that blocks the operating system thread outside a scheduling point (a channel operation, a
	// lock form the instrumenter does not know) would hang the cooperative scheduler; give up instead of hanging
	go func() {
		last := int64(-1)
		for {
			time.Sleep(20 * time.Second)
			cur := atomic.LoadInt64(&x.Execs)
			if cur == last {
				out.Execs, out.Capped, out.Stuck = cur, true, true
				b, _ := json.Marshal(out)
				os.Stdout.Write(append(b, '\n'))
				os.Exit(0)
			}
			last = cur
		}
	}()
	x.Violation = func(choices []int, schedule []string, what string) {
		if len(out.Viol) < 5 {
			out.Viol = append(out.Viol, c13Viol{What: what, Choices: choices, Schedule: schedule})
		}
	}
	x.Explore()
	out.Execs, out.Diverged, out.MaxPoints, out.Capped = x.Execs, x.Diverged, x.MaxPoints, x.Capped
	b, _ := json.Marshal(out)
	os.Stdout.Write(append(b, '\n'))
}
