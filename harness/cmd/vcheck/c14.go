package main

import (
	"encoding/json"
	"fmt"
	"strings"
	"sync/atomic"
	"unicode"

	ucfgyaml "github.com/elastic/go-ucfg/yaml"
	yaml "gopkg.in/yaml.v2"

	seccomp "github.com/elastic/go-seccomp-bpf"

	"verif/harness/engine"
	"verif/harness/evid"
	"verif/harness/refsem"
)

func init() { register("C14", checkC14) }

var actionConst = map[string]seccomp.Action{"kill_thread": 0x00000000, "kill_process": 0x80000000, "trap": 0x00030000, "errno": 0x00050000,
	"trace": 0x7ff00000, "log": 0x7ffc0000, "allow": 0x7fff0000}

// caseVariantsAll returns all 2^letters ASCII case variants.
func caseVariantsAll(s string) []string {
	var idx []int
	for i, c := range s {
		if unicode.IsLetter(c) {
			idx = append(idx, i)
		}
	}
	out := make([]string, 0, 1<<len(idx))
	for m := 0; m < 1<<len(idx); m++ {
		b := []byte(strings.ToLower(s))
		for k, i := range idx {
			if m&(1<<k) != 0 {
				b[i] -= 32
			}
		}
		out = append(out, string(b))
	}
	return out
}

func isASCIIVariant(s, name string) bool {
	if len(s) != len(name) {
		return false
	}
	for i := 0; i < len(s); i++ {
		a, b := s[i], name[i]
		if a >= 'A' && a <= 'Z' {
			a += 32
		}
		if b >= 'A' && b <= 'Z' {
			b += 32
		}
		if a != b {
			return false
		}
	}
	return true
}

// singleEdits returns all strings at edit distance 1 over the alphabet.
func singleEdits(s string) []string {
	alpha := []string{"_", " ", "\x00", "ı", "K", "ſ", "\t", "-"}
	for c := 'a'; c <= 'z'; c++ {
		alpha = append(alpha, string(c))
	}
	r := []rune(s)
	var out []string
	for i := range r {
		out = append(out, string(r[:i])+string(r[i+1:]))
		for _, a := range alpha {
			out = append(out, string(r[:i])+a+string(r[i+1:]))
		}
	}
	for i := 0; i <= len(r); i++ {
		for _, a := range alpha {
			out = append(out, string(r[:i])+a+string(r[i:]))
		}
	}
	return out
}

func checkC14(tier, replay string) int {
	ctx := evid.New("C14", tier, "exploration")
	var parses, rejected, folded int64
	// ---- Space A: action names
	var actNames, opNames []string
	for n := range actionConst {
		actNames = append(actNames, n)
	}
	opNames = append(opNames, refsem.OpNames...)
	unpackAction := func(s string) (seccomp.Action, error) {
		a := seccomp.Action(0xdeadbeef)
		err := a.Unpack(s)
		return a, err
	}
	unpackOp := func(s string) (seccomp.Operation, error) {
		o := seccomp.Operation("<unset>")
		err := o.Unpack(s)
		return o, err
	}
	for _, n := range actNames {
		for _, v := range caseVariantsAll(n) {
			atomic.AddInt64(&parses, 1)
			a, err := unpackAction(v)
			if err != nil || a != actionConst[n] {
				ctx.Violation("C14:action-case:"+n, fmt.Sprintf("Action.Unpack(%q) = %#x, %v; want %#x", v, uint32(a), err, uint32(actionConst[n])), map[string]any{"input": v})
			}
		}
	}
	for _, n := range opNames {
		for _, v := range caseVariantsAll(n) {
			atomic.AddInt64(&parses, 1)
			o, err := unpackOp(v)
			if err != nil || string(o) != n {
				ctx.Violation("C14:operation-case:"+n, fmt.Sprintf("Operation.Unpack(%q) = %q, %v; want %q", v, string(o), err, n), map[string]any{"input": v})
			}
		}
	}
	// strings that must be rejected (or, if they fold to exactly one name under Unicode case folding, map to that name only)
	judge := func(kind string, s string, names []string, got string, err error) {
		atomic.AddInt64(&parses, 1)
		var ascii, fold string
		for _, n := range names {
			if isASCIIVariant(s, n) {
				ascii = n
			}
			if strings.EqualFold(s, n) || strings.ToLower(s) == strings.ToLower(n) {
				fold = n
			}
		}
		switch {
		case ascii != "":
			if err != nil || got != ascii {
				ctx.Violation("C14:"+kind+":variant:"+ascii, fmt.Sprintf("%s.Unpack(%q) = %q, %v; want %q", kind, s, got, err, ascii), map[string]any{"input": s})
			}
		case fold != "":
			atomic.AddInt64(&folded, 1)
			if err == nil && got != fold {
				ctx.Violation("C14:"+kind+":fold:"+fold, fmt.Sprintf("%s.Unpack(%q) = %q, which is not the name it folds to (%q)", kind, s, got, fold), map[string]any{"input": s})
			}
		default:
			atomic.AddInt64(&rejected, 1)
			if err == nil {
				ctx.Violation("C14:"+kind+":accepted-unknown", fmt.Sprintf("%s.Unpack(%q) accepted an unknown name as %q", kind, s, got), map[string]any{"input": s})
			}
		}
	}
	var bad []string
	for _, n := range append(append([]string{}, actNames...), opNames...) {
		bad = append(bad, singleEdits(n)...)
		bad = append(bad, singleEdits(strings.ToUpper(n))...)
	}
	bad = append(bad, "", "unknown", "Unknown", "0", "1", "0x7fff0000", "2147418112", "allow\n", "\nallow", "allow,errno", "kill", "kill_", "killprocess", "kill-process", "user_notif", "notify", "default", "deny", "permit", "true", "false", "nil", "null")
	for _, a := range actNames {
		for _, b := range append(append([]string{}, actNames...), opNames...) {
			bad = append(bad, a+b, a+" "+b, a+"|"+b)
		}
	}
	for _, s := range bad {
		a, err := unpackAction(s)
		got := ""
		if err == nil {
			for n, c := range actionConst {
				if c == a {
					got = n
				}
			}
			if got == "" {
				got = fmt.Sprintf("%#x", uint32(a))
			}
		}
		judge("Action", s, actNames, got, err)
		o, err := unpackOp(s)
		judge("Operation", s, opNames, string(o), err)
	}
	// every operation name is rejected as an action and vice versa
	for _, n := range opNames {
		if _, err := unpackAction(n); err == nil {
			ctx.Violation("C14:Action:accepted-unknown", "operation name accepted as action: "+n, nil)
		}
	}
	// round trips of the printed form
	for n, c := range actionConst {
		if c.String() != n {
			ctx.Violation("C14:action-string:"+n, fmt.Sprintf("Action(%#x).String() = %q, want %q", uint32(c), c.String(), n), nil)
		}
		mt, _ := c.MarshalText()
		for _, txt := range []string{c.String(), string(mt)} {
			if a, err := unpackAction(txt); err != nil || a != c {
				ctx.Violation("C14:action-roundtrip:"+n, fmt.Sprintf("Unpack(%q) of the printed form of %#x gives %#x, %v", txt, uint32(c), uint32(a), err), nil)
			}
		}
	}
	for _, op := range seccomp.Operations {
		if o, err := unpackOp(string(op)); err != nil || o != op {
			ctx.Violation("C14:operation-roundtrip:"+string(op), fmt.Sprintf("Unpack(%q) = %q, %v", string(op), string(o), err), nil)
		}
	}
	if len(seccomp.Operations) != 8 {
		ctx.Violation("C14:operations-list", fmt.Sprintf("Operations lists %d entries, want the 8 documented ones", len(seccomp.Operations)), nil)
	}
	// ---- Space B: configuration path
	var roundTrips, policies int64
	x := refsem.ArchByName("x86_64")
	doPolicy := func(scope string, p *seccomp.Policy) {
		atomic.AddInt64(&policies, 1)
		litProg, litErr := compileHash(x, p)
		n := int(atomic.LoadInt64(&policies))
		renders := map[string][]byte{}
		renders["independent-emitter"] = emitYAML(p, n)
		type wrap struct {
			Seccomp seccomp.Policy `yaml:"seccomp" json:"seccomp"`
		}
		if b, err := yaml.Marshal(wrap{*p}); err == nil {
			renders["yaml.Marshal"] = b
		} else {
			ctx.Violation("C14:marshal-yaml", "yaml.Marshal of a policy failed: "+err.Error(), engine.ToJSON(x, p, false))
		}
		if b, err := json.Marshal(wrap{*p}); err == nil {
			renders["json.Marshal"] = b
		} else {
			ctx.Violation("C14:marshal-json", "json.Marshal of a policy failed: "+err.Error(), engine.ToJSON(x, p, false))
		}
		for how, text := range renders {
			atomic.AddInt64(&roundTrips, 1)
			back, err := loadThroughConfigPath(text)
			var gotProg string
			var gotErr error
			if err != nil {
				gotErr = err
			} else {
				gotProg, gotErr = compileHash(x, back)
			}
			same := (litErr != nil && gotErr != nil) || (litErr == nil && gotErr == nil && litProg == gotProg)
			if !same {
				cls := "differs"
				if litErr == nil && gotErr != nil {
					cls = "rejected"
				} else if litErr != nil && gotErr == nil {
					cls = "accepted"
				}
				ctx.Violation(fmt.Sprintf("C14:config:%s:%s", how, cls), fmt.Sprintf("policy read back through the configuration path from its %s rendering %s: literal compiles to %s (err=%v), read-back to %s (err=%v); text:\n%s", how, cls, litProg, litErr, gotProg, gotErr, clip(string(text), 700)),
					map[string]any{"policy": engine.ToJSON(x, p, false), "rendering": how, "text": string(text)})
			}
		}
		if n%5000 == 1 {
			ctx.Sample(map[string]any{"scope": scope, "policy": engine.ToJSON(x, p, false), "independent_rendering": string(renders["independent-emitter"])})
		}
	}
	names := s1Names(x)
	parallelFor(s1Size(2), func(i int) { doPolicy("S1", s1Policy(names, i)) })
	ops := []seccomp.Operation{seccomp.Equal, seccomp.BitsSet, seccomp.LessOrEqual}
	if tier == "thorough" {
		ops = allOps
	}
	s := newS3(x, ops)
	feed(func(emit func(p *seccomp.Policy)) { s.policies(2, 2, emit) }, func(p *seccomp.Policy) { doPolicy("S3", p) })
	// all operations x all argument indices x the operand alphabet, every named action
	var conds []*seccomp.Policy
	for oi, op := range allOps {
		for arg := uint32(0); arg < 6; arg++ {
			for vi, v := range v64() {
				conds = append(conds, &seccomp.Policy{DefaultAction: allNamed[(oi+vi)%7], Syscalls: []seccomp.SyscallGroup{{Action: allNamed[(oi+vi+int(arg)+1)%7],
					Names: []string{names[0]}, NamesWithCondtions: []seccomp.NameWithConditions{{Name: names[1], Conditions: seccomp.ArgumentConditions{{Argument: arg, Operation: op, Value: v}}}}}}})
			}
		}
	}
	parallelFor(len(conds), func(i int) { doPolicy("S2", conds[i]) })
	// sizes: lists of 1..13 conditions (several on one argument), 1..9 lists per entry, 1..9 entries per group, 1..9 names, 1..6 groups
	var sized []*seccomp.Policy
	mkList := func(k int) seccomp.ArgumentConditions {
		var l seccomp.ArgumentConditions
		for i := 0; i < k; i++ {
			op := seccomp.GreaterOrEqual
			if i%2 == 1 {
				op = seccomp.LessOrEqual
			}
			l = append(l, seccomp.Condition{Argument: uint32((i / 2) % 6), Operation: op, Value: uint64(10*i + i%2*1000)})
		}
		return l
	}
	for k := 1; k <= 13; k++ {
		sized = append(sized, &seccomp.Policy{DefaultAction: seccomp.ActionAllow, Syscalls: []seccomp.SyscallGroup{{Action: seccomp.ActionErrno, NamesWithCondtions: []seccomp.NameWithConditions{{Name: names[1], Conditions: mkList(k)}}}}})
	}
	for k := 1; k <= 9; k++ {
		g1, g2, g3 := seccomp.SyscallGroup{Action: seccomp.ActionErrno}, seccomp.SyscallGroup{Action: seccomp.ActionTrap}, seccomp.SyscallGroup{Action: seccomp.ActionKillProcess}
		tab := x.SortedNames()
		for i := 0; i < k; i++ {
			g1.NamesWithCondtions = append(g1.NamesWithCondtions, seccomp.NameWithConditions{Name: names[1], Conditions: mkList(1 + i%3)})
			g2.NamesWithCondtions = append(g2.NamesWithCondtions, seccomp.NameWithConditions{Name: tab[10+i], Conditions: mkList(2)})
			g3.Names = append(g3.Names, tab[40+i])
		}
		sized = append(sized, &seccomp.Policy{DefaultAction: seccomp.ActionAllow, Syscalls: []seccomp.SyscallGroup{g1}}, &seccomp.Policy{DefaultAction: seccomp.ActionLog, Syscalls: []seccomp.SyscallGroup{g2, g3}})
		if k <= 6 {
			p := &seccomp.Policy{DefaultAction: seccomp.ActionAllow}
			for i := 0; i < k; i++ {
				p.Syscalls = append(p.Syscalls, seccomp.SyscallGroup{Action: allNamed[i%7], Names: []string{tab[60+i]}})
			}
			sized = append(sized, p)
		}
	}
	parallelFor(len(sized), func(i int) { doPolicy("sizes", sized[i]) })
	ctx.Cov["evaluations"] = parses + roundTrips
	ctx.Cov["distinct_nontrivial"] = policies
	ctx.Cov["name_strings_parsed"] = parses
	ctx.Cov["strings_that_must_be_rejected"] = rejected
	ctx.Cov["strings_equal_to_a_name_only_under_unicode_folding"] = folded
	ctx.Cov["policies_round_tripped"] = policies
	ctx.Cov["round_trips"] = roundTrips
	ctx.Cov["rule"] = "A: all 2^letters ASCII case variants of the 7 action and 8 operation names must parse to the exact constant; all single-edit mutants (delete / substitute / insert over a-z, '_', blank, tab, '-', NUL, dotless i, Kelvin sign, long s) of every name in lower and upper case, pair concatenations and a list of look-alikes must be rejected (three-valued where a string equals a name only under Unicode folding); printed forms parse back. B: every policy of S1 (<=2 groups), S3 (<=2 entries, <=2 conditions) and S2 (8 ops x 6 argument indices x operand alphabet x all named actions), plus a size family (lists of 1..13 conditions, 1..9 lists per entry, 1..9 entries, 1..9 names, 1..6 groups), is rendered by an independent emitter (documented keys, decimal/hex operands, varied letter case), by yaml.Marshal and by json.Marshal of the library structs, read back through ucfg/yaml + Unpack exactly as cmd/sandbox does, and must compile to the identical program (or both be rejected); non-trivial = distinct policies round-tripped"
	ctx.Assumptions = []string{"ucfg/yaml.NewConfig + Unpack into struct{Seccomp Policy} is the documented configuration path (cmd/sandbox parsePolicy)", "JSON text is fed to the same YAML loader (JSON is a YAML subset); ucfg's separate JSON loader is not on the documented path"}
	return finishOrReplay(ctx, replay)
}

func clip(s string, n int) string {
	if len(s) > n {
		return s[:n] + "..."
	}
	return s
}

func compileHash(a *refsem.Arch, p *seccomp.Policy) (string, error) {
	insts, err, pan := engine.Compile(a, p, false)
	if pan != nil {
		return "", fmt.Errorf("panic: %v", pan)
	}
	if err != nil {
		return "", err
	}
	prog, err := engine.Raw(insts)
	if err != nil {
		return "", err
	}
	return fmt.Sprintf("%d:%s", len(prog), hashInsns(prog)), nil
}

// loadThroughConfigPath mirrors cmd/sandbox parsePolicy.
func loadThroughConfigPath(text []byte) (p *seccomp.Policy, err error) {
	defer func() {
		if r := recover(); r != nil {
			err = fmt.Errorf("panic in config path: %v", r)
		}
	}()
	conf, err := ucfgyaml.NewConfig(text)
	if err != nil {
		return nil, err
	}
	type Config struct {
		Seccomp seccomp.Policy
	}
	var config Config
	if err = conf.Unpack(&config); err != nil {
		return nil, err
	}
	return &config.Seccomp, nil
}

// emitYAML is an independent emitter following the documented keys of cmd/sandbox/seccomp.yml.
func emitYAML(p *seccomp.Policy, variant int) []byte {
	cs := func(s string) string {
		switch variant % 3 {
		case 1:
			return strings.ToUpper(s)
		case 2:
			return strings.ToUpper(s[:1]) + s[1:]
		}
		return s
	}
	actName := func(a seccomp.Action) string {
		for n, c := range actionConst {
			if c == a {
				return cs(n)
			}
		}
		return fmt.Sprintf("%d", uint32(a))
	}
	var b strings.Builder
	fmt.Fprintf(&b, "seccomp:\n  default_action: %s\n  syscalls:\n", actName(p.DefaultAction))
	for _, g := range p.Syscalls {
		fmt.Fprintf(&b, "  - action: %s\n", actName(g.Action))
		if len(g.Names) > 0 {
			b.WriteString("    names:\n")
			for _, n := range g.Names {
				fmt.Fprintf(&b, "    - %s\n", n)
			}
		}
		if len(g.NamesWithCondtions) > 0 {
			b.WriteString("    names_with_args:\n")
			for _, e := range g.NamesWithCondtions {
				fmt.Fprintf(&b, "    - name: %s\n      arguments:\n", e.Name)
				for ci, c := range e.Conditions {
					val := fmt.Sprintf("%d", c.Value)
					if (variant+ci)%2 == 1 {
						val = fmt.Sprintf("0x%x", c.Value)
					}
					fmt.Fprintf(&b, "      - argument: %d\n        operation: %s\n        value: %s\n", c.Argument, cs(string(c.Operation)), val)
				}
			}
		}
	}
	return []byte(b.String())
}
