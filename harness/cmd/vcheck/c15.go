package main

import (
	"encoding/json"
	"fmt"
	"os"
	"path/filepath"
	"sort"
	"strings"
	"sync/atomic"
	"syscall"
	"time"

	seccomp "github.com/elastic/go-seccomp-bpf"

	"verif/harness/cbpf"
	"verif/harness/engine"
	"verif/harness/evid"
	"verif/harness/refsem"
)

func init() {
	register("C15", checkC15)
	// probe target: a separate program image started by the sandbox command
	childCmds["probe"] = func(args []string) {
		f, err := os.OpenFile(args[0], os.O_APPEND|os.O_CREATE|os.O_WRONLY, 0o644)
		if err == nil {
			f.WriteString("ran\n")
			f.Close()
		}
		var evs []probeEv
		b, _ := os.ReadFile(args[1])
		json.Unmarshal(b, &evs)
		var errnos []int
		for i, ev := range evs {
			if ev.Kill {
				fmt.Printf("KILL-NEXT %d %s\n", i, mustJSON(errnos))
			}
			_, _, e := syscall.RawSyscall6(uintptr(ev.Nr), uintptr(ev.Args[0]), uintptr(ev.Args[1]), uintptr(ev.Args[2]), uintptr(ev.Args[3]), uintptr(ev.Args[4]), uintptr(ev.Args[5]))
			errnos = append(errnos, int(e))
		}
		fmt.Printf("DONE %s\n", mustJSON(errnos))
	}
}

var c15Bases = map[string]string{
	"names-deny": `seccomp:
  default_action: allow
  syscalls:
  - action: errno
    names:
    - getppid
    - getuid
  - action: errno
    names:
    - getegid
`,
	"conditional": `seccomp:
  default_action: allow
  syscalls:
  - action: errno
    names:
    - geteuid
    names_with_args:
    - name: getppid
      arguments:
      - argument: 1
        operation: Equal
        value: 0x100000005
      - argument: 4
        operation: BitsSet
        value: 0x40
    - name: getuid
      arguments:
      - argument: 5
        operation: GreaterThan
        value: 7
`,
	// every operation, names in other letter cases than the canonical one (the format is case-insensitive)
	"conditional-lettercase": `seccomp:
  default_action: ALLOW
  syscalls:
  - action: Errno
    names_with_args:
    - name: getppid
      arguments:
      - argument: 0
        operation: equal
        value: 0x100000005
    - name: getppid
      arguments:
      - argument: 1
        operation: NOTEQUAL
        value: 0
      - argument: 2
        operation: greaterthan
        value: 0xffffffff
    - name: getuid
      arguments:
      - argument: 3
        operation: lessThan
        value: 0x100000000
      - argument: 4
        operation: GREATERorEQUAL
        value: 9
    - name: getgid
      arguments:
      - argument: 5
        operation: lessorequal
        value: 4
    - name: getegid
      arguments:
      - argument: 0
        operation: bitsset
        value: 0x8000000000000001
    - name: getpgrp
      arguments:
      - argument: 1
        operation: BITSNOTSET
        value: 0x30
`,
	// a group that ends with a conditional entry, followed by a group with an unconditional rule for the same syscall
	"conditional-then-later-group": `seccomp:
  default_action: allow
  syscalls:
  - action: allow
    names:
    - getpgrp
    names_with_args:
    - name: getppid
      arguments:
      - argument: 0
        operation: Equal
        value: 1
  - action: errno
    names:
    - getppid
    - getuid
`,
	// one syscall listed twice with entries for other syscalls in between, and a three-condition list
	"conditional-interleaved": `seccomp:
  default_action: allow
  syscalls:
  - action: errno
    names_with_args:
    - name: getppid
      arguments:
      - argument: 0
        operation: Equal
        value: 1001
    - name: getuid
      arguments:
      - argument: 1
        operation: Equal
        value: 7
    - name: getgid
      arguments:
      - argument: 0
        operation: GreaterThan
        value: 0x100000000
      - argument: 1
        operation: Equal
        value: 5
      - argument: 2
        operation: BitsSet
        value: 0x10
    - name: getppid
      arguments:
      - argument: 0
        operation: Equal
        value: 1002
    - name: getuid
      arguments:
      - argument: 2
        operation: NotEqual
        value: 0
`,
	"kill": `seccomp:
  default_action: allow
  syscalls:
  - action: errno
    names:
    - getppid
  - action: kill_process
    names_with_args:
    - name: getegid
      arguments:
      - argument: 0
        operation: NotEqual
        value: 0
`,
	"group-with-default-action": `seccomp:
  default_action: allow
  syscalls:
  - action: allow
    names:
    - getppid
    - getpgrp
  - action: errno
    names:
    - getppid
    - getuid
`,
	"trailing-group-with-default-action": `seccomp:
  default_action: allow
  syscalls:
  - action: errno
    names:
    - getuid
  - action: allow
    names:
    - getppid
    - getgid
`,
	"execve-denied": `seccomp:
  default_action: allow
  syscalls:
  - action: errno
    names:
    - getppid
  - action: errno
    names:
    - getuid
    - execve
`,
	"execve-not-in-allow-list": `seccomp:
  default_action: errno
  syscalls:
  - action: allow
    names:
    - getppid
    - read
    - write
    - mmap
    - rt_sigaction
`,
	"log-and-trailing-group": `seccomp:
  default_action: allow
  syscalls:
  - action: log
    names:
    - getgid
  - action: errno
    names:
    - getgid
    - getpgrp
`,
}

// names that the tables of other architectures have and the x86_64 table does not
var c15ForeignNames = []string{"socketcall", "_llseek", "mmap2", "fstat64", "arm_fadvise64_64", "sigreturn", "waitpid", "ugetrlimit"}

type c15Case struct {
	Label     string   `json:"label"`
	File      string   `json:"file_content,omitempty"`
	FileKind  string   `json:"file_kind"` // content | missing | directory
	ExtraArgs []string `json:"extra_args,omitempty"`
	Unpriv    bool     `json:"unprivileged"`
	BadTarget bool     `json:"nonexistent_target"`
	// nested run: an outer sandbox whose policy answers errno to seccomp(2) starts the sandbox under test, for which the
	// kernel then refuses the filter
	OuterDeniesSeccomp bool `json:"outer_denies_seccomp,omitempty"`
	// files too large to be kept in a replay artefact are described by how they are generated
	// the sandbox command is nested Nest times with the same policy (each level installs its filter and starts the next):
	// with a near-maximum policy the kernel's budget of 32768 instructions per thread is exceeded at some level (ENOMEM)
	// the command runs under a tracer that answers every seccomp(2) call itself (strace -e inject=seccomp:<this>): the call
	// never reaches the kernel, so no filter is installed whatever the answer looks like - an errno, or a positive
	// result, which is how the kernel reports the thread that refused a thread-sync load
	Inject   string `json:"seccomp_answer_injected,omitempty"`
	Nest     int    `json:"nest,omitempty"`
	GenKind  string `json:"generated_kind,omitempty"` // large-file | long-group | oversize | near-max
	GenParam int    `json:"generated_param,omitempty"`
}

// c15Generate builds the content of a generated policy file.
func c15Generate(kind string, param int) string {
	var b strings.Builder
	switch kind {
	case "oversize":
		b.WriteString("seccomp:\n  default_action: allow\n  syscalls:\n  - action: errno\n    names_with_args:\n")
		for i := 0; i < 1100; i++ {
			fmt.Fprintf(&b, "    - name: getppid\n      arguments:\n      - argument: 0\n        operation: Equal\n        value: %d\n", 1000+i)
		}
	case "near-max":
		b.WriteString("seccomp:\n  default_action: allow\n  syscalls:\n  - action: errno\n    names_with_args:\n")
		for i := 0; i < param; i++ {
			fmt.Fprintf(&b, "    - name: getsid\n      arguments:\n      - argument: 0\n        operation: Equal\n        value: %d\n", 1<<40+i)
		}
	case "long-group":
		b.WriteString("seccomp:\n  default_action: allow\n  syscalls:\n  - action: errno\n    names_with_args:\n")
		for i := 0; i < param; i++ {
			fmt.Fprintf(&b, "    - name: getppid\n      arguments:\n      - argument: 0\n        operation: Equal\n        value: %d\n", 1000+i)
		}
		b.WriteString("  - action: errno\n    names:\n    - getuid\n    - getppid\n")
	case "large-file":
		b.WriteString("seccomp:\n  default_action: allow\n  syscalls:\n  - action: errno\n    names:\n    - getppid\n")
		for b.Len()+64 <= param {
			b.WriteString("# " + strings.Repeat("-", 61) + "\n")
		}
		if rest := param - b.Len(); rest >= 2 {
			b.WriteString("#" + strings.Repeat("-", rest-2) + "\n")
		}
		b.WriteString("  - action: errno\n    names:\n    - getuid\n    - getgid\n")
	}
	return b.String()
}

func checkC15(tier, replay string) int {
	ctx := evid.New("C15", tier, "fault_enumeration")
	if !seccompAvailable() {
		ctx.Capped("seccomp(2) is not available here")
		ctx.Cov["evaluations"], ctx.Cov["distinct_nontrivial"], ctx.Cov["rule"] = 1, 2, "seccomp unavailable"
		ctx.Sample("seccomp unavailable")
		return ctx.Finish()
	}
	scratch, _ := os.MkdirTemp("", "c15") // under the system temp directory: must be reachable by uid 65534
	defer os.RemoveAll(scratch)
	os.Chmod(scratch, 0o755)
	sandbox, err := buildTool(scratch, "sandbox", "github.com/elastic/go-seccomp-bpf/cmd/sandbox")
	if err != nil {
		fmt.Println("harness setup failed:", err)
		return 2
	}
	self, _ := os.Executable()
	probe := filepath.Join(scratch, "probe")
	copyFile(self, probe)
	a := refsem.ArchByName("x86_64")
	var cases []c15Case
	if replay != "" {
		var f struct {
			Case c15Case `json:"case"`
		}
		if err := readJSON(replay, &f); err != nil {
			fmt.Println(err)
			return 2
		}
		if f.Case.GenKind != "" {
			f.Case.File = c15Generate(f.Case.GenKind, f.Case.GenParam)
		}
		cases = []c15Case{f.Case}
	} else {
		for name, text := range c15Bases {
			cases = append(cases, c15Case{Label: name + "/whole", File: text, FileKind: "content"})
			cases = append(cases, c15Case{Label: name + "/whole/unpriv", File: text, FileKind: "content", Unpriv: true})
			cases = append(cases, c15Case{Label: name + "/whole/unpriv-no-nnp", File: text, FileKind: "content", Unpriv: true, ExtraArgs: []string{"-no-new-privs=false"}})
			cases = append(cases, c15Case{Label: name + "/whole/no-nnp", File: text, FileKind: "content", ExtraArgs: []string{"-no-new-privs=false"}})
			cases = append(cases, c15Case{Label: name + "/whole/bad-target", File: text, FileKind: "content", BadTarget: true})
			cases = append(cases, c15Case{Label: name + "/whole/seccomp-denied-by-outer-sandbox", File: text, FileKind: "content", OuterDeniesSeccomp: true})
			cases = append(cases, c15Case{Label: name + "/whole/seccomp-denied-by-outer-sandbox/no-nnp", File: text, FileKind: "content", OuterDeniesSeccomp: true, ExtraArgs: []string{"-no-new-privs=false"}})
			if straceWorks() {
				for _, spec := range []string{"retval=4242", "retval=1", "error=ESRCH", "error=ENOMEM", "error=EINVAL", "error=EACCES", "error=EFAULT"} {
					cases = append(cases, c15Case{Label: name + "/whole/seccomp-answered-by-tracer/" + spec, File: text, FileKind: "content", Inject: spec})
				}
			}
			// every line prefix; every byte prefix (thorough) or every byte prefix inside the first and last rule (quick)
			lines := strings.SplitAfter(text, "\n")
			off := 0
			first, last := -1, -1
			for i, l := range lines {
				if strings.Contains(l, "- action:") {
					if first < 0 {
						first = i
					}
					last = i
				}
			}
			for i, l := range lines {
				cases = append(cases, c15Case{Label: fmt.Sprintf("%s/line-prefix-%d", name, i), File: text[:off], FileKind: "content"})
				inFirst := i >= first && i < first+4
				inLast := i >= last
				if tier == "thorough" || inFirst || inLast {
					for k := 1; k < len(l); k++ {
						cases = append(cases, c15Case{Label: fmt.Sprintf("%s/byte-prefix-%d", name, off+k), File: text[:off+k], FileKind: "content"})
					}
				}
				off += len(l)
			}
			// defects
			def := func(label, content string) {
				cases = append(cases, c15Case{Label: name + "/defect/" + label, File: content, FileKind: "content"})
			}
			def("unknown-action", strings.Replace(text, "action: errno", "action: deny", 1))
			def("env-reference-as-action", strings.Replace(text, "action: errno", "action: ${C15_ACT}", 1))
			def("env-reference-as-default", strings.Replace(text, "default_action: allow", "default_action: ${C15_ACT}", 1))
			def("unknown-default", strings.Replace(text, "default_action: allow", "default_action: permit", 1))
			def("unknown-syscall", strings.Replace(text, "- getppid", "- getppid_", 1))
			// an unknown name at every position where a syscall name stands (plain names and names_with_args entries)
			occ := 0
			for _, ln := range strings.SplitAfter(text, "\n") {
				t := strings.TrimSpace(ln)
				isName := strings.HasPrefix(t, "- name: ") || (strings.HasPrefix(t, "- ") && !strings.Contains(t, ":"))
				if isName {
					idx := strings.Index(text, ln)
					bad := strings.TrimRight(ln, "\n") + "_x\n"
					def(fmt.Sprintf("unknown-syscall-at-%d", occ), text[:idx]+bad+text[idx+len(ln):])
					// a name that looks like a reference to the environment (the variable is set, to a real syscall name, in
					// every run): the file says what it says, a policy is not a template
					if occ < 3 {
						for k, ref := range []string{"${C15_NAME}", "${C15_NAME:no_such_call}", "'${C15_NAME}'", "$C15_NAME", "%{C15_NAME}"} {
							name := strings.TrimSpace(strings.TrimPrefix(strings.TrimPrefix(t, "- name: "), "- "))
							def(fmt.Sprintf("env-reference-as-name-%d-at-%d", k, occ), text[:idx]+strings.Replace(ln, name, ref, 1)+text[idx+len(ln):])
						}
					}
					// a name that IS a system call - of another architecture's table, not of this one
					for k := 0; k < 2; k++ {
						foreign := c15ForeignNames[(2*occ+k)%len(c15ForeignNames)]
						if _, known := refsem.ArchByName("x86_64").Number(foreign); known {
							continue
						}
						cut := strings.LastIndex(strings.TrimRight(ln, "\n"), " ") + 1
						def(fmt.Sprintf("other-architectures-syscall-at-%d/%s", occ, foreign), text[:idx]+ln[:cut]+foreign+"\n"+text[idx+len(ln):])
					}
					occ++
				}
			}
			if i := strings.LastIndex(text, "    - "); i > 0 {
				def("unknown-syscall-last-group", text[:i]+"    - no_such_call\n"+text[i:])
			}
			def("unknown-action-first-group", strings.Replace(text, "- action: ", "- action: x", 1))
			def("wrong-top-level-key", strings.Replace(text, "seccomp:", "secomp:", 1))
			def("no-syscalls-key", "seccomp:\n  default_action: allow\n")
			def("non-yaml", "\x00\x01{{{ not yaml: [\n")
			def("tab-indented", strings.Replace(text, "  default_action", "\tdefault_action", 1))
			def("empty-file", "")
			if strings.Contains(text, "operation:") {
				def("unknown-operation", strings.Replace(text, "operation: Equal", "operation: Equals", 1))
				def("argument-6", strings.Replace(text, "argument: 1", "argument: 6", 1))
				def("negative-argument", strings.Replace(text, "argument: 1", "argument: -1", 1))
				def("value-not-a-number", strings.Replace(text, "value: 0x40", "value: forty", 1))
			}
			if strings.Contains(text, "- getuid\n") {
				def("duplicate-name", strings.Replace(text, "- getuid\n", "- getuid\n    - getuid\n", 1))
			}
		}
		// kernel refusal: > 4096 instructions
		cases = append(cases, c15Case{Label: "oversize/kernel-EINVAL", File: c15Generate("oversize", 0), FileKind: "content", GenKind: "oversize"})
		// a first group whose conditional entries compile to more than 255 instructions (long jumps inside it), then a second group
		cases = append(cases, c15Case{Label: "long-conditional-group-then-group/whole", File: c15Generate("long-group", 70), FileKind: "content", GenKind: "long-group", GenParam: 70})
		// ten nested sandbox commands with a 4.0k-instruction policy: one of them is refused by the kernel (ENOMEM)
		cases = append(cases, c15Case{Label: "nested-10x-near-maximum/kernel-ENOMEM", File: c15Generate("near-max", 1010), FileKind: "content", GenKind: "near-max", GenParam: 1010, Nest: 10})
		// large files: a comment block pushes the last group to start exactly at byte offset L (and one byte before / after it):
		// a reader that stops at a size limit on a line boundary would still see a well-formed, but different, policy
		for _, L := range []int{4096, 8192, 16384, 32768, 65536, 131072, 1 << 20} {
			for _, d := range []int{0, -1, 1} {
				cases = append(cases, c15Case{Label: fmt.Sprintf("large-file/last-group-at-%d", L+d), File: c15Generate("large-file", L+d), FileKind: "content", GenKind: "large-file", GenParam: L + d})
			}
		}
		// JSON renderings (JSON is YAML) with operands that need all 64 bits
		for oi, v := range []uint64{1<<53 + 1, 1<<63 - 1, 1<<64 - 1, 1 << 63, 0x0102030405060708} {
			for _, op := range []seccomp.Operation{seccomp.Equal, seccomp.GreaterThan, seccomp.BitsSet} {
				type wrap struct {
					Seccomp seccomp.Policy `json:"seccomp"`
				}
				pol := seccomp.Policy{DefaultAction: seccomp.ActionAllow, Syscalls: []seccomp.SyscallGroup{{Action: seccomp.ActionErrno, Names: []string{"getuid"},
					NamesWithCondtions: []seccomp.NameWithConditions{{Name: "getppid", Conditions: seccomp.ArgumentConditions{{Argument: uint32(oi % 6), Operation: op, Value: v}}}}}}}
				jb, _ := json.Marshal(wrap{pol})
				cases = append(cases, c15Case{Label: fmt.Sprintf("json-operand/%s-%#x", op, v), File: string(jb), FileKind: "content"})
				cases = append(cases, c15Case{Label: fmt.Sprintf("json-operand-indented/%s-%#x", op, v), File: "\n  " + string(jb) + "\n", FileKind: "content"})
			}
		}
		cases = append(cases, c15Case{Label: "missing-file", FileKind: "missing"})
		// a relative policy name that does not exist in the working directory, while files of that name exist elsewhere the
		// command might look (next to its own executable, in the home directory, in /etc)
		cases = append(cases, c15Case{Label: "missing-file/relative-name-exists-elsewhere", FileKind: "missing-relative"})
		cases = append(cases, c15Case{Label: "missing-file/default-name-exists-elsewhere", FileKind: "missing-default"})
		cases = append(cases, c15Case{Label: "directory", FileKind: "directory"})
	}
	var runs, ranTarget, refused, probes int64
	parallelFor(len(cases), func(i int) {
		c := cases[i]
		dir := filepath.Join(scratch, fmt.Sprintf("case%d", i))
		os.MkdirAll(dir, 0o777)
		os.Chmod(dir, 0o777)
		defer os.RemoveAll(dir)
		pol := filepath.Join(dir, "policy.yml")
		switch c.FileKind {
		case "content":
			os.WriteFile(pol, []byte(c.File), 0o644)
		case "directory":
			os.Mkdir(pol, 0o755)
		}
		// what must happen, from the same bytes through the documented config path
		var parsed *seccomp.Policy
		var prog []cbpf.Insn
		mustRefuse := ""
		if c.FileKind != "content" {
			mustRefuse = "policy file cannot be read"
		} else if p, err := loadThroughConfigPath([]byte(c.File)); err != nil {
			mustRefuse = "config error: " + err.Error()
		} else if v, why := refsem.Valid(a, p); v == refsem.MustReject {
			// judged by the reference (not by the library under test): the file denotes a defective policy
			mustRefuse = "policy invalid: " + why
		} else if insts, err, pan := engine.Compile(a, p, false); err != nil || pan != nil {
			mustRefuse = fmt.Sprintf("policy invalid: %v %v", err, pan)
		} else {
			parsed = p
			prog, _ = engine.Raw(insts)
			if len(prog) > cbpf.MaxInsns {
				mustRefuse = "kernel refuses (program too long)"
			} else if c.Unpriv && len(c.ExtraArgs) > 0 {
				mustRefuse = "kernel refuses (no privilege, no no_new_privs)"
			} else if c.Nest >= 9 && len(prog) > 3700 {
				mustRefuse = "kernel refuses (the filters of the nested commands exceed 32768 instructions)"
			} else if c.OuterDeniesSeccomp {
				mustRefuse = "kernel refuses (seccomp(2) answers EPERM under the outer sandbox)"
			} else if c.Inject != "" {
				mustRefuse = "no filter is installed (every seccomp(2) call is answered with " + c.Inject + " without reaching the kernel)"
			} else if d := refsem.Decide(a, p, cbpf.Event{Nr: mustNum(a, "execve"), Arch: a.ID}); d != refsem.RetAllow && d != refsem.RetLog {
				// the sandbox starts the target with execve after the filter is in force: a policy that does not allow
				// execve cannot start anything, and the command must not work around its own policy
				mustRefuse = fmt.Sprintf("the policy answers %#x to execve, so no target can be started under it", d)
			}
		}
		marker := filepath.Join(dir, "marker")
		evFile := filepath.Join(dir, "events.json")
		var sent []probeEv
		nKill := 0
		if parsed != nil && mustRefuse == "" {
			evs, _ := c08Events(a, parsed, prog, 3000)
			var killers []cbpf.Event
			for _, e := range evs {
				if refsem.Decide(a, parsed, e) == refsem.RetKillProcess {
					killers = append(killers, e)
				} else {
					sent = append(sent, probeEv{Nr: e.Nr, Args: e.Args})
				}
			}
			if len(killers) > 0 {
				k := killers[i%len(killers)]
				sent = append(sent, probeEv{Nr: k.Nr, Args: k.Args, Kill: true})
				nKill = 1
			}
		}
		eb, _ := json.Marshal(sent)
		os.WriteFile(evFile, eb, 0o644)
		target := []string{probe, "child", "probe", marker, evFile}
		if c.BadTarget {
			target = []string{filepath.Join(dir, "no-such-program")}
		}
		argv := append([]string{sandbox, "-policy", pol}, c.ExtraArgs...)
		sbx := sandbox
		if c.FileKind == "missing-relative" || c.FileKind == "missing-default" {
			// a private copy of the command with a permissive policy file of the same name right next to it (and in HOME)
			name := "strict-policy.yml"
			if c.FileKind == "missing-default" {
				name = "seccomp.yml"
			}
			bdir := filepath.Join(dir, "bin")
			os.MkdirAll(bdir, 0o755)
			sbx = filepath.Join(bdir, "sandbox")
			copyFile(sandbox, sbx)
			os.Chmod(sbx, 0o755)
			perm := "seccomp:\n  default_action: allow\n  syscalls:\n  - action: errno\n    names:\n    - getsid\n"
			os.WriteFile(filepath.Join(bdir, name), []byte(perm), 0o644)
			os.MkdirAll(filepath.Join(dir, "home"), 0o755)
			os.WriteFile(filepath.Join(dir, "home", name), []byte(perm), 0o644)
			os.MkdirAll(filepath.Join(dir, "cwd"), 0o755)
			if c.FileKind == "missing-default" {
				argv = []string{sbx}
			} else {
				argv = []string{sbx, "-policy", name}
			}
		}
		argv = append(argv, target...)
		for k := 1; k < c.Nest; k++ {
			argv = append([]string{sandbox, "-policy", pol}, argv...)
		}
		if c.OuterDeniesSeccomp {
			outer := filepath.Join(dir, "outer.yml")
			os.WriteFile(outer, []byte("seccomp:\n  default_action: allow\n  syscalls:\n  - action: errno\n    names:\n    - seccomp\n"), 0o644)
			argv = append([]string{sandbox, "-policy", outer}, argv...)
		}
		if c.Inject != "" {
			argv = append([]string{"strace", "-f", "-o", "/dev/null", "-e", "trace=seccomp", "-e", "inject=seccomp:" + c.Inject}, argv...)
		}
		if c.Unpriv {
			argv = append([]string{"setpriv", "--reuid", "65534", "--regid", "65534", "--clear-groups"}, argv...)
		}
		runDir, runEnv := dir, []string{"PATH=/usr/bin:/bin", "C15_NAME=getuid", "C15_ACT=allow", "C15_OP=Equal"}
		if c.FileKind == "missing-relative" || c.FileKind == "missing-default" {
			runDir = filepath.Join(dir, "cwd")
			runEnv = append(runEnv, "HOME="+filepath.Join(dir, "home"))
		}
		r := runCmd(60*time.Second, runEnv, runDir, argv...)
		atomic.AddInt64(&runs, 1)
		_, merr := os.Stat(marker)
		ran := merr == nil
		if ran {
			atomic.AddInt64(&ranTarget, 1)
		}
		rep := c
		if rep.GenKind != "" {
			rep.File = "" // regenerated on replay
		} else if len(rep.File) > 3000 {
			rep.File = rep.File[:3000] + "..."
		}
		switch {
		case mustRefuse != "":
			atomic.AddInt64(&refused, 1)
			if ran {
				ctx.Violation("C15:target-ran-without-policy:"+classOf(c.Label), fmt.Sprintf("%s: %s, yet the target program was started (sandbox exit %d)", c.Label, mustRefuse, r.Exit), rep)
			}
			if r.Exit == 0 {
				ctx.Violation("C15:exit-zero-on-refusal:"+classOf(c.Label), fmt.Sprintf("%s: %s, yet the sandbox command exited 0", c.Label, mustRefuse), rep)
			}
		case c.BadTarget:
			if r.Exit == 0 {
				ctx.Violation("C15:exit-zero-bad-target", "the target program does not exist but the sandbox exited 0", rep)
			}
		default:
			if !ran {
				ctx.Violation("C15:target-not-run:"+classOf(c.Label), fmt.Sprintf("%s: valid policy, but the target was not started (exit %d, stderr %.300s)", c.Label, r.Exit, r.Stderr), rep)
				return
			}
			// the target's observations
			var errnos []int
			done := false
			killAnnounced := -1
			for _, l := range strings.Split(r.Stdout, "\n") {
				if strings.HasPrefix(l, "DONE ") {
					json.Unmarshal([]byte(l[5:]), &errnos)
					done = true
				}
				var idx int
				var rest string
				if n, _ := fmt.Sscanf(l, "KILL-NEXT %d %s", &idx, &rest); n == 2 {
					killAnnounced = idx
					json.Unmarshal([]byte(rest), &errnos)
				}
			}
			if nKill == 0 && !done {
				ctx.Violation("C15:target-died:"+classOf(c.Label), fmt.Sprintf("%s: the target did not finish its probes (exit %d, stderr %.300s)", c.Label, r.Exit, r.Stderr), rep)
				return
			}
			if nKill == 1 && (done || killAnnounced != len(sent)-1) {
				ctx.Violation("C15:kill-not-enforced:"+classOf(c.Label), fmt.Sprintf("%s: the policy answers kill_process for the last probe but the target survived it (done=%v announced=%d)", c.Label, done, killAnnounced), rep)
			}
			for k, en := range errnos {
				if k >= len(sent) {
					break
				}
				atomic.AddInt64(&probes, 1)
				e := cbpf.Event{Nr: sent[k].Nr, Arch: a.ID, Args: sent[k].Args}
				want := refsem.Decide(a, parsed, e)
				wantErrno := 0
				if want == refsem.RetErrno|refsem.EPERM {
					wantErrno = 1
				}
				if en != wantErrno {
					ctx.Violation("C15:decision:"+classOf(c.Label), fmt.Sprintf("%s: target observed errno %d for nr %d args %x, the policy in the file says %#x", c.Label, en, e.Nr, e.Args, want), rep)
					break
				}
			}
		}
		if i%97 == 0 {
			ctx.Sample(map[string]any{"case": c.Label, "must_refuse": mustRefuse, "target_ran": ran, "sandbox_exit": r.Exit, "probe_events": len(sent)})
		}
	})
	if replay == "" {
		ctx.Cov["installed_programs_compared_with_the_compiled_policy"] = c15InstalledPrograms(ctx, a, sandbox, scratch)
	}
	ctx.Cov["evaluations"] = runs + probes
	ctx.Cov["distinct_nontrivial"] = len(cases)
	ctx.Cov["sandbox_runs"] = runs
	ctx.Cov["runs_in_which_the_target_started"] = ranTarget
	ctx.Cov["runs_that_must_be_refused"] = refused
	ctx.Cov["probe_events_observed_by_the_target"] = probes
	ctx.Cov["rule"] = "the built cmd/sandbox binary is run with a probe target (a separate program that first appends a marker line, then issues probe syscalls for every partition cell of the policy) on: 11 base policy files (one listing a syscall twice with entries for other syscalls in between and a three-condition list, one spelling all eight operations and the actions in non-canonical letter case, one whose first group ends with a conditional entry for a syscall the second group names unconditionally) (incl. two under which execve is not allowed: no target can be started) whole (root / uid 65534 / with -no-new-privs=false / non-existent target / nested inside an outer sandbox whose policy answers errno to seccomp(2), so that the kernel refuses the filter; under a tracer that answers every seccomp(2) call itself - with a positive result, which is how a refused thread-sync is reported, or with ESRCH / ENOMEM / EINVAL / EACCES / EFAULT - so that nothing is installed), every line prefix and every byte prefix inside the first and last rule (thorough: every byte prefix), 13 defect kinds per base plus names, actions and defaults written as references to environment variables that are set in every run (${VAR}, ${VAR:default}, $VAR, %{VAR}), an unknown name, and two names that only other architectures' tables have, at every position where a syscall name stands, JSON renderings with operands that need all 64 bits (unknown action/default/syscall/operation, wrong key, no syscalls, non-YAML, tab indentation, empty, argument 6 / -1, non-numeric value, duplicate name), a policy compiling to > 4096 instructions, ten nested sandbox commands with a 4.0k-instruction policy (the kernel refuses one of them with ENOMEM), a policy whose first group needs long jumps (70 conditional entries) followed by a second group, files of 4 KiB to 1 MiB in which a comment block pushes the last group to byte offset L-1, L, L+1 for L in {4096, ..., 65536, 131072, 1 MiB}, a missing file (also a relative and the default name that exist next to the command's executable and in HOME, but not in the working directory) and a directory; for four files that allow every syscall of the table by name (so that the default action decides nothing the command needs) - default_action omitted, allow, errno, kill_process - and for every base file, the program the command hands to seccomp(2), read from a tracer's decoding, equals the program compiled from the policy the file denotes; the same bytes are loaded by the harness through ucfg: if that fails, the policy is invalid or the kernel must refuse, the run must exit non-zero with no marker; otherwise the marker exists and the target's observations equal the reference decisions of the policy the file denotes"
	ctx.Assumptions = []string{"a truncated file that still parses is a different valid policy and is judged as such", "probe syscalls ignore arguments", "fault points before exec are realised through inputs (file defects, kernel refusals), not by interrupting the sandbox process"}
	if replay != "" {
		return finishReplay(ctx)
	}
	return ctx.Finish()
}

func classOf(label string) string {
	parts := strings.Split(label, "/")
	if len(parts) >= 2 {
		k := parts[1]
		if i := strings.LastIndex(k, "-"); i > 0 && strings.ContainsAny(k[i+1:], "0123456789") {
			k = k[:i]
		}
		if parts[1] == "defect" && len(parts) > 2 {
			return "defect-" + parts[2]
		}
		return k
	}
	return label
}

// c15InstalledPrograms: "only under the loaded policy" includes the parts of the policy that no probe of the target can
// see without dying - above all the default action when it is the zero action (kill_thread, what a file that omits
// default_action denotes). The files allow every syscall of the table by name, the command runs /bin/true under strace,
// and the sock_filter array it passes to seccomp(2) is compared with the program compiled from the same bytes.
func c15InstalledPrograms(ctx *evid.Ctx, a *refsem.Arch, sandbox, scratch string) int {
	if !straceWorks() {
		ctx.Capped("strace cannot trace here: installed programs not compared")
		return 0
	}
	trueBin := "/bin/true"
	if _, err := os.Stat(trueBin); err != nil {
		trueBin = "/usr/bin/true"
	}
	var names strings.Builder
	for _, n := range a.SortedNames() {
		if _, ok := a.Info.SyscallNames[n]; ok && n != "getsid" {
			names.WriteString("    - " + n + "\n")
		}
	}
	n := 0
	type inst struct{ def, text string }
	var files []inst
	for _, def := range []string{"", "  default_action: allow\n", "  default_action: errno\n", "  default_action: kill_process\n"} {
		files = append(files, inst{def, "seccomp:\n" + def + "  syscalls:\n  - action: allow\n    names:\n" + names.String() + "  - action: errno\n    names:\n    - getsid\n"})
	}
	// and every base file (all of them state a default other than kill_thread, so the command does not hang)
	var baseNames []string
	for name := range c15Bases {
		baseNames = append(baseNames, name)
	}
	sort.Strings(baseNames)
	for _, name := range baseNames {
		if !strings.Contains(c15Bases[name], "kill_thread") {
			files = append(files, inst{"base " + name, c15Bases[name]})
		}
	}
	for _, fl := range files {
		def, text := fl.def, fl.text
		rep := map[string]any{"installed_program": true, "default_action_line": strings.TrimSpace(def)}
		p, err := loadThroughConfigPath([]byte(text))
		if err != nil {
			ctx.Capped("the all-names policy file does not load in the harness: " + err.Error())
			continue
		}
		insts, cerr, pan := engine.Compile(a, p, false)
		if cerr != nil || pan != nil {
			ctx.Capped(fmt.Sprintf("the all-names policy does not compile: %v %v", cerr, pan))
			continue
		}
		want, _ := engine.Raw(insts)
		dir, _ := os.MkdirTemp(scratch, "inst")
		pol, trace := filepath.Join(dir, "policy.yml"), filepath.Join(dir, "trace.txt")
		os.WriteFile(pol, []byte(text), 0o644)
		r := runCmd(60*time.Second, []string{"PATH=/usr/bin:/bin"}, dir, "strace", "-f", "-v", "-X", "raw", "-s", "1000000", "-e", "trace=seccomp", "-o", trace, sandbox, "-policy", pol, trueBin)
		tb, _ := os.ReadFile(trace)
		os.RemoveAll(dir)
		var got []cbpf.Insn
		found := false
		for _, l := range strings.Split(string(tb), "\n") {
			i := strings.Index(l, "seccomp(0x1, ")
			j := strings.Index(l, "filter=[")
			if i < 0 || j < 0 {
				continue
			}
			found, got = true, nil
			body := l[j+len("filter=["):]
			if k := strings.Index(body, "]}"); k >= 0 {
				body = body[:k]
			}
			for _, item := range strings.Split(body, "), ") {
				item = strings.TrimSuffix(strings.TrimSpace(item), ")")
				open := strings.Index(item, "(")
				if open < 0 {
					continue
				}
				var f []uint64
				for _, part := range strings.Split(item[open+1:], ",") {
					var v uint64
					for _, t := range strings.Split(strings.TrimSpace(part), "|") {
						var x uint64
						if _, err := fmt.Sscanf(strings.TrimSpace(t), "0x%x", &x); err != nil {
							fmt.Sscanf(strings.TrimSpace(t), "%d", &x)
						}
						v |= x
					}
					f = append(f, v)
				}
				switch {
				case strings.HasPrefix(item, "BPF_STMT") && len(f) == 2:
					got = append(got, cbpf.Insn{Op: uint16(f[0]), K: uint32(f[1])})
				case strings.HasPrefix(item, "BPF_JUMP") && len(f) == 4:
					got = append(got, cbpf.Insn{Op: uint16(f[0]), K: uint32(f[1]), Jt: uint8(f[2]), Jf: uint8(f[3])})
				}
			}
		}
		if !found || len(got) == 0 {
			ctx.Capped(fmt.Sprintf("no seccomp(2) call with a decoded program in the trace of the sandbox command (exit %d)", r.Exit))
			continue
		}
		n++
		same := len(got) == len(want)
		first := -1
		for i := 0; same && i < len(want); i++ {
			if got[i] != want[i] {
				same, first = false, i
			}
		}
		if !same {
			what := fmt.Sprintf("lengths %d and %d", len(got), len(want))
			if first >= 0 {
				what = fmt.Sprintf("instruction %d is %+v, compiled from the file's policy it is %+v", first, got[first], want[first])
			}
			ctx.Violation("C15:installed-program-differs:"+strings.TrimSpace(def), fmt.Sprintf("policy file with every table name allowed and default_action line %q: the program the sandbox command passes to seccomp(2) differs from the one compiled from the policy the file denotes (%s)", strings.TrimSpace(def), what), rep)
		}
	}
	return n
}
