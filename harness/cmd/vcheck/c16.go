package main

import (
	"bytes"
	"context"
	"encoding/json"
	"errors"
	"fmt"
	"os"
	"os/exec"
	"path/filepath"
	"runtime"
	"strings"
	"sync"
	"sync/atomic"
	"syscall"
	"time"

	"github.com/elastic/go-seccomp-bpf/arch"
	"github.com/elastic/go-seccomp-bpf/cmd/seccomp-profiler/disasm"

	"verif/harness/evid"
	"verif/harness/refsem"
)

func init() {
	register("C16", checkC16)
	childCmds["extract"] = func(args []string) {
		info := arch.X86_64
		if args[0] == "i386" {
			info = arch.I386
		}
		// one OS thread for the whole extraction: strace counts injected faults per thread
		runtime.LockOSThread()
		res, err := disasm.ExtractSyscalls(info, args[1])
		out := map[string]any{"n": len(res), "nil": res == nil}
		if err != nil {
			out["err"] = err.Error()
		}
		var nums []int
		for _, s := range res {
			nums = append(nums, s.Num)
		}
		out["nums"] = nums
		b, _ := json.Marshal(out)
		os.Stdout.Write(append(b, '\n'))
	}
}

// line shapes of the text alphabet
const (
	shFunc        = iota // TEXT main.fN(SB) /src/f.go
	shFuncSys            // TEXT syscall.Syscall(SB) /src/asm.s      (a syscall wrapper: raw sites inside are not sites)
	shFuncEmpty          // "TEXT "
	shFuncBare           // "TEXT"
	shFuncGeneric        // TEXT main.g[go.shape.struct { F int }](SB) /src/f.go   (symbol contains blanks)
	shRaw                // 4-field raw syscall instruction of this parser
	shRawOther           // the other parser's raw instruction (neutral here)
	shRawBare            // "SYSCALL" / "INT $0x80" alone on the line
	shLoadAX             // MOVQ $0x3b, AX
	shLoadBP             // MOVL $0x1, BP
	shLoadStack          // MOVL $1, 0(SP)
	shLoadNeg            // MOVQ $-1, AX
	shLoadBad            // MOVQ $zz, AX
	shLoadUnknown        // MOVQ $999999, AX   (not in any table)
	shXor                // XORL AX, AX
	shCall               // 4-field CALL syscall.Syscall(SB)
	shCallBare           // "CALL syscall.Syscall6(SB)" without location fields
	shNeutral            // NOPL
	shEmpty              // empty line
	shLong               // 70000-byte line
	shCount
)

// shapes used only by the generated listings (not part of the exhaustive text alphabet)
const (
	shRaw2  = shCount     // second raw instruction of the parser: SYSENTER on i386 (neutral on x86_64)
	shCall2 = shCount + 1 // 4-field CALL golang.org/x/sys/unix.RawSyscallNoError(SB)
	shCall3 = shCount + 2 // 4-field CALL syscall.rawVforkSyscall(SB)
	// numbers that only become table entries when some bit is ignored: the x32 marker bit on top of a valid number
	shLoadX32AX    = shCount + 3 // MOVL $0x40000001, AX
	shLoadX32Stack = shCount + 4 // MOVQ $0x40000027, 0(SP)
	// one call shape and one function-marker shape per entry point the parser treats as a syscall wrapper
	shCallW0     = shCount + 5   // 4-field CALL <wrapper i>, i = 0..len(c16WrapperSyms)-1
	shFuncW0     = shCallW0 + 12 // TEXT <wrapper i> /src/asm.s
	shListingEnd = shFuncW0 + 12
	// function markers whose line is long (a generic instantiation with a long type argument list, a deep source path)
	shFuncLong600  = shListingEnd     // TEXT main.h<n>[...600 bytes...](SB) /src/f.go
	shFuncLong5000 = shListingEnd + 1 // ... 5000 bytes
)

// c16WrapperSyms: the twelve entry points, with the package path a real listing shows.
var c16WrapperSyms = []string{"syscall.Syscall(SB)", "syscall.Syscall6(SB)", "syscall.rawVforkSyscall(SB)", "syscall.RawSyscall(SB)", "syscall.RawSyscall6(SB)",
	"golang.org/x/sys/unix.RawSyscall(SB)", "golang.org/x/sys/unix.RawSyscall6(SB)", "golang.org/x/sys/unix.RawSyscallNoError(SB)", "golang.org/x/sys/unix.Syscall(SB)",
	"golang.org/x/sys/unix.Syscall6(SB)", "golang.org/x/sys/unix.Syscall9(SB)", "golang.org/x/sys/unix.SyscallNoError(SB)"}

var shapeNames = []string{"TEXT f", "TEXT syscall.Syscall", "TEXT_", "TEXT(bare)", "TEXT generic", "RAW", "RAW-other", "RAW(bare)", "MOV $0x3b,AX", "MOV $1,BP", "MOV $1,0(SP)", "MOV $-1,AX", "MOV $zz,AX", "MOV $999999,AX", "XORL AX,AX", "CALL syscall.Syscall", "CALL(bare)", "NOPL", "(empty)", "(70000 bytes)", "SYSENTER", "CALL unix.RawSyscallNoError", "CALL syscall.rawVforkSyscall", "MOV $0x40000001,AX", "MOV $0x40000027,0(SP)"}

func init() {
	for _, w := range c16WrapperSyms {
		shapeNames = append(shapeNames, "CALL "+w)
	}
	for _, w := range c16WrapperSyms {
		shapeNames = append(shapeNames, "TEXT "+w)
	}
	shapeNames = append(shapeNames, "TEXT (600-byte symbol)", "TEXT (5000-byte symbol)")
}

func rawInstr(i386 bool) string {
	if i386 {
		return "INT $0x80"
	}
	return "SYSCALL"
}

func renderLine(sh, n int, i386 bool) string {
	ins := func(asm string) string { return fmt.Sprintf("  f.go:%d\t0x%x\t0f05\t%s", n, 0x401000+n, asm) }
	switch sh {
	case shFunc:
		return fmt.Sprintf("TEXT main.f%d(SB) /src/f.go", n)
	case shFuncSys:
		return "TEXT syscall.Syscall(SB) /src/asm.s"
	case shFuncEmpty:
		return "TEXT "
	case shFuncBare:
		return "TEXT"
	case shFuncGeneric:
		return fmt.Sprintf("TEXT main.g%d[go.shape.struct { F int; N uintptr }](SB) /src/f.go", n)
	case shRaw:
		return ins(rawInstr(i386))
	case shRawOther:
		return ins(rawInstr(!i386))
	case shRawBare:
		return rawInstr(i386)
	case shLoadAX:
		return ins("MOVQ $0x3b, AX")
	case shLoadBP:
		return ins("MOVL $0x1, BP")
	case shLoadStack:
		return ins("MOVL $1, 0(SP)")
	case shLoadNeg:
		return ins("MOVQ $-1, AX")
	case shLoadBad:
		return ins("MOVQ $zz, AX")
	case shLoadUnknown:
		return ins("MOVQ $999999, AX")
	case shXor:
		return ins("XORL AX, AX")
	case shCall:
		return ins("CALL syscall.Syscall(SB)")
	case shCallBare:
		return "CALL syscall.Syscall6(SB)"
	case shNeutral:
		return ins("NOPL 0(AX)(AX*1)")
	case shEmpty:
		return ""
	case shLong:
		return "  f.go:1\t0x1\t90\t" + strings.Repeat("X", 70000)
	case shRaw2:
		return ins("SYSENTER")
	case shCall2:
		return ins("CALL golang.org/x/sys/unix.RawSyscallNoError(SB)")
	case shCall3:
		return ins("CALL syscall.rawVforkSyscall(SB)")
	case shLoadX32AX:
		return ins("MOVL $0x40000001, AX")
	case shLoadX32Stack:
		return ins("MOVQ $0x40000027, 0(SP)")
	}
	if sh >= shCallW0 && sh < shCallW0+12 {
		return ins("CALL " + c16WrapperSyms[sh-shCallW0])
	}
	if sh >= shFuncW0 && sh < shFuncW0+12 {
		return "TEXT " + c16WrapperSyms[sh-shFuncW0] + " /src/asm.s"
	}
	if sh == shFuncLong600 || sh == shFuncLong5000 {
		return "TEXT " + c16LongSym(sh, n) + " /src/f.go"
	}
	return ""
}

func c16LongSym(sh, n int) string {
	k := 600
	if sh == shFuncLong5000 {
		k = 5000
	}
	return fmt.Sprintf("main.h%d[go.shape.struct { %s }](SB)", n, strings.Repeat("F int; ", k/7))
}

type modelSite struct {
	Num      int
	Name     string
	Caller   string
	Location string
}

// modelExtract is the independent site-model parser over the typed text. expectErr is true if the text cannot
// be read to the end (over-long line).
func modelExtract(shapes []int, i386 bool, names map[int]string) (sites []modelSite, expectErr bool) {
	return modelExtractOpt(shapes, i386, names, false)
}

// modelExtractOpt: with longReadable the 70000-byte line is an ordinary neutral instruction line (what a parser with a
// larger line buffer sees).
func modelExtractOpt(shapes []int, i386 bool, names map[int]string, longReadable bool) (sites []modelSite, expectErr bool) {
	function := ""
	var window []int // indices into shapes since the last reset
	for n, sh := range shapes {
		if sh == shLong && longReadable {
			window = append(window, n)
			continue
		}
		switch sh {
		case shLong:
			return nil, true
		case shFunc:
			function = fmt.Sprintf("main.f%d(SB) /src/f.go", n)
			window = window[:0]
			continue
		case shFuncSys:
			function = "syscall.Syscall(SB) /src/asm.s"
			window = window[:0]
			continue
		case shFuncEmpty, shFuncBare:
			function = ""
			window = window[:0]
			continue
		case shFuncGeneric:
			function = fmt.Sprintf("main.g%d[go.shape.struct { F int; N uintptr }](SB) /src/f.go", n)
			window = window[:0]
			continue
		}
		if sh >= shFuncW0 && sh < shFuncW0+12 {
			function = c16WrapperSyms[sh-shFuncW0] + " /src/asm.s"
			window = window[:0]
			continue
		}
		if sh == shFuncLong600 || sh == shFuncLong5000 {
			function = c16LongSym(sh, n) + " /src/f.go"
			window = window[:0]
			continue
		}
		window = append(window, n)
		isRaw := sh == shRaw || sh == shRawBare || (sh == shRaw2 && i386)
		// on x86_64 the i386 raw instruction "INT $0x80" is neutral; on i386 "SYSCALL" is neutral
		isCall := sh == shCall || sh == shCallBare || sh == shCall2 || sh == shCall3 || (sh >= shCallW0 && sh < shCallW0+12)
		inWrapper := false
		for _, w := range c16WrapperSyms {
			// the parser looks for the unqualified tail ("unix.Syscall9(SB)")
			if strings.Contains(function, w[strings.LastIndex(w[:strings.Index(w, "(")], "/")+1:]) {
				inWrapper = true
			}
		}
		loc := fmt.Sprintf("f.go:%d", n)
		if sh == shRawBare {
			loc = strings.Fields(rawInstr(i386))[0]
		}
		if sh == shCallBare {
			loc = "CALL"
		}
		found, num := false, 0
		if isRaw && !inWrapper {
			if len(window) >= 2 && shapes[window[len(window)-2]] == shXor {
				// compiler idiom: XORL AX, AX directly before the raw instruction is syscall 0; the window is cleared
				if name, ok := names[0]; ok {
					sites = append(sites, modelSite{0, name, function, loc})
				}
				window = window[:0]
				continue
			}
			for k := len(window) - 1; k >= 0 && !found; k-- {
				switch shapes[window[k]] {
				case shLoadAX:
					found, num = true, 0x3b
				case shLoadBP:
					found, num = true, 1
				case shLoadNeg:
					found, num = true, -1
				case shLoadUnknown:
					found, num = true, 999999
				case shLoadX32AX:
					found, num = true, 0x40000001
				case shLoadBad:
					k = -1 // unparsable number: the site is dropped, nothing is cleared
				}
			}
		} else if isCall {
			for k := len(window) - 1; k >= 0 && !found; k-- {
				if shapes[window[k]] == shLoadStack {
					found, num = true, 1
				}
				if shapes[window[k]] == shLoadX32Stack {
					found, num = true, 0x40000027
				}
			}
		} else {
			continue
		}
		if !found {
			continue
		}
		window = window[:0]
		if name, ok := names[num]; ok {
			sites = append(sites, modelSite{num, name, function, loc})
		}
	}
	return sites, false
}

type c16Result struct {
	sites    []modelSite
	err      error
	panicked any
	isNil    bool
}

func realExtract(info *arch.Info, path string) (r c16Result) {
	defer func() {
		if p := recover(); p != nil {
			r.panicked = p
		}
	}()
	res, err := disasm.ExtractSyscalls(info, path)
	r.err = err
	r.isNil = res == nil
	for _, s := range res {
		r.sites = append(r.sites, modelSite{s.Num, s.Name, s.Caller, s.Location})
	}
	return
}

func shapesText(shapes []int) string {
	var s []string
	for _, sh := range shapes {
		s = append(s, shapeNames[sh])
	}
	return strings.Join(s, " | ")
}

func checkC16(tier, replay string) int {
	ctx := evid.New("C16", tier, "exploration")
	// the parser prints a WARN line per undecodable site to os.Stderr: keep the check's output readable
	if devnull, err := os.OpenFile(os.DevNull, os.O_WRONLY, 0); err == nil {
		realStderr := os.Stderr
		os.Stderr = devnull
		defer func() { os.Stderr = realStderr }()
	}
	dir := "/dev/shm"
	if st, err := os.Stat(dir); err != nil || !st.IsDir() {
		dir = os.TempDir()
	}
	scratch, _ := os.MkdirTemp(dir, "c16")
	defer os.RemoveAll(scratch)
	oracleNames := func(a *refsem.Arch) map[int]string {
		m := map[int]string{}
		for _, n := range a.SortedNames() {
			v, _ := a.Number(n)
			m[int(v)] = n
		}
		return m
	}
	type parserCfg struct {
		i386  bool
		info  *arch.Info
		names map[int]string
		label string
	}
	parsers := []parserCfg{{false, arch.X86_64, oracleNames(refsem.ArchByName("x86_64")), "x86_64"}, {true, arch.I386, oracleNames(refsem.ArchByName("i386")), "i386"}}
	maxLines := 4
	if tier == "thorough" {
		maxLines = 5
	}
	var texts, parsed, withSites, monoChecks, errExpected int64
	var fileSeq int64
	checkText := func(pc parserCfg, shapes []int, trailingNL bool, prefixResults [][]modelSite) []modelSite {
		var b strings.Builder
		for i, sh := range shapes {
			b.WriteString(renderLine(sh, i, pc.i386))
			if i < len(shapes)-1 || trailingNL {
				b.WriteByte('\n')
			}
		}
		path := filepath.Join(scratch, fmt.Sprintf("t%d.txt", atomic.AddInt64(&fileSeq, 1)))
		os.WriteFile(path, []byte(b.String()), 0o644)
		defer os.Remove(path)
		r := realExtract(pc.info, path)
		atomic.AddInt64(&parsed, 1)
		want, expectErr := modelExtract(shapes, pc.i386, pc.names)
		rep := map[string]any{"parser": pc.label, "shapes": shapes, "shape_names": shapesText(shapes), "trailing_newline": trailingNL, "text": clip(b.String(), 1500)}
		key := func(kind string) string { return "C16:" + kind + ":" + pc.label }
		if r.panicked != nil {
			ctx.Violation(key("panic:"+clip(fmt.Sprint(r.panicked), 48)), fmt.Sprintf("ExtractSyscalls panicked (%v) on text [%s]", r.panicked, shapesText(shapes)), rep)
			return nil
		}
		if expectErr {
			atomic.AddInt64(&errExpected, 1)
			if r.err == nil {
				// no error is only right if the parser really read the whole text (a larger line buffer than bufio's default):
				// then its result has to be the one for the complete text, the long line being an ordinary instruction line
				whole, _ := modelExtractOpt(shapes, pc.i386, pc.names, true)
				same := len(whole) == len(r.sites)
				for i := 0; same && i < len(whole); i++ {
					same = whole[i] == r.sites[i]
				}
				if !same {
					ctx.Violation(key("truncated-without-error"), fmt.Sprintf("a 70000-byte line is in the text; ExtractSyscalls returned a nil error and %+v, which is not the result for the whole text (%+v) on [%s]", r.sites, whole, shapesText(shapes)), rep)
				}
			}
			return nil
		}
		if r.err != nil {
			ctx.Violation(key("unexpected-error"), fmt.Sprintf("ExtractSyscalls failed on a readable text [%s]: %v", shapesText(shapes), r.err), rep)
			return nil
		}
		// every reported syscall exists under the reported name
		for _, s := range r.sites {
			if pc.names[s.Num] != s.Name {
				ctx.Violation(key("name"), fmt.Sprintf("reported syscall %d as %q, table says %q", s.Num, s.Name, pc.names[s.Num]), rep)
			}
		}
		// site model: same list of (number, name, caller, location)
		same := len(r.sites) == len(want)
		for i := 0; same && i < len(want); i++ {
			same = r.sites[i] == want[i]
		}
		if !same {
			ctx.Violation(key("site-model"), fmt.Sprintf("text [%s]: ExtractSyscalls reports %+v, site model says %+v", shapesText(shapes), r.sites, want), rep)
		}
		if len(r.sites) > 0 {
			atomic.AddInt64(&withSites, 1)
		}
		// monotonicity: every prefix that is followed by a function marker keeps its syscalls
		for k := 1; k < len(shapes); k++ {
			if shapes[k] <= shFuncGeneric && prefixResults[k] != nil {
				atomic.AddInt64(&monoChecks, 1)
				pre := prefixResults[k]
				ok := len(pre) <= len(r.sites)
				for i := 0; ok && i < len(pre); i++ {
					ok = pre[i] == r.sites[i]
				}
				if !ok {
					ctx.Violation(key("not-monotone"), fmt.Sprintf("appending functions removed syscalls: prefix of %d lines yields %+v, whole text [%s] yields %+v", k, pre, shapesText(shapes), r.sites), rep)
				}
			}
		}
		return r.sites
	}
	if replay != "" {
		var f struct {
			Case struct {
				Parser string   `json:"parser"`
				Shapes []int    `json:"shapes"`
				NL     bool     `json:"trailing_newline"`
				Seq    []string `json:"call_sequence"`
			} `json:"case"`
		}
		if err := readJSON(replay, &f); err != nil {
			fmt.Println(err)
			return 2
		}
		if len(f.Case.Seq) > 0 {
			fmt.Printf("call sequence in one process: %v\n", f.Case.Seq)
			c16Sequences(ctx, tier, map[string]map[int]string{"x86_64": parsers[0].names, "i386": parsers[1].names}, f.Case.Seq)
			if ctx.NumViolations() > 0 {
				for _, l := range ctx.Describe() {
					fmt.Println(l)
				}
				fmt.Println("REPRODUCED")
				return 1
			}
			fmt.Println("not reproduced")
			return 0
		}
		pc := parsers[0]
		if f.Case.Parser == "i386" {
			pc = parsers[1]
		}
		fmt.Printf("text: %s\n", shapesText(f.Case.Shapes))
		checkText(pc, f.Case.Shapes, f.Case.NL, make([][]modelSite, len(f.Case.Shapes)+1))
		if ctx.NumViolations() > 0 {
			fmt.Println("REPRODUCED")
			return 1
		}
		fmt.Println("not reproduced")
		return 0
	}
	// DFS over all texts of <= maxLines lines; sharded on the first two lines
	type shard struct{ a, b int }
	var shards []shard
	for a := 0; a < shCount; a++ {
		for b := -1; b < shCount; b++ {
			shards = append(shards, shard{a, b})
		}
	}
	for _, pc := range parsers {
		pc := pc
		parallelFor(len(shards), func(si int) {
			sh := shards[si]
			shapes := []int{sh.a}
			// prefixResults[k] = real result for the first k lines (only needed when line k is a function marker)
			prefix := make([][]modelSite, maxLines+2)
			var rec func()
			visit := func() []modelSite {
				atomic.AddInt64(&texts, 1)
				nLong := 0
				for _, s := range shapes {
					if s == shLong {
						nLong++
					}
				}
				if nLong > 1 {
					return nil // at most one over-long line
				}
				if nLong == 1 && shapes[len(shapes)-1] != shLong && len(shapes) > 3 {
					// longer texts with lines after the over-long one: only those whose tail is made of the lines that
					// form sites (a parser that gives up at the long line without saying so loses exactly those)
					after := false
					for _, s := range shapes {
						if after && s != shFunc && s != shLoadAX && s != shLoadStack && s != shRaw && s != shCall && s != shNeutral {
							return nil
						}
						after = after || s == shLong
					}
				}
				res := checkText(pc, shapes, true, prefix)
				checkText(pc, shapes, false, prefix)
				return res
			}
			rec = func() {
				res := visit()
				prefix[len(shapes)] = res
				if res == nil {
					prefix[len(shapes)] = []modelSite{}
					// texts with an over-long line are extended too (visit decides which of them are parsed): what stands
					// after the line must not be lost without an error
				}
				if len(shapes) == maxLines {
					return
				}
				for s := 0; s < shCount; s++ {
					shapes = append(shapes, s)
					rec()
					shapes = shapes[:len(shapes)-1]
				}
			}
			if sh.b < 0 {
				res := visit()
				_ = res
				return
			}
			r1 := checkText(pc, shapes, true, prefix)
			prefix[1] = r1
			if r1 == nil {
				prefix[1] = []modelSite{}
			}
			shapes = append(shapes, sh.b)
			rec()
		})
	}
	// realistic well-formed listings from the site model (several functions, several sites per function)
	c16Listings(ctx, checkTextAdapter(func(pc int, shapes []int) { checkText(parsers[pc], shapes, true, make([][]modelSite, len(shapes)+1)) }), tier)
	// real listings of a real program, whole and cut at function boundaries
	realLines, realSites, realPrefixes := c16RealListings(ctx, scratch, tier, map[string]map[int]string{"x86_64": parsers[0].names, "i386": parsers[1].names})
	ctx.Cov["real_listing_lines"] = realLines
	ctx.Cov["real_listing_syscall_sites"] = realSites
	ctx.Cov["real_listing_prefixes_at_function_boundaries"] = realPrefixes
	if replay == "" {
		seqs, seqSteps := c16Sequences(ctx, tier, map[string]map[int]string{"x86_64": parsers[0].names, "i386": parsers[1].names}, nil)
		ctx.Cov["call_sequences_in_one_process"] = seqs
		ctx.Cov["call_sequence_steps_checked"] = seqSteps
	}
	// fault enumeration: a read error at every read call, and unreadable inputs
	faults := c16ReadFaults(ctx, scratch)
	ctx.Cov["evaluations"] = parsed + faults
	ctx.Cov["distinct_nontrivial"] = withSites
	ctx.Cov["texts_enumerated"] = texts
	ctx.Cov["parses"] = parsed
	ctx.Cov["parses_reporting_at_least_one_syscall"] = withSites
	ctx.Cov["monotonicity_checks"] = monoChecks
	ctx.Cov["texts_that_cannot_be_read_to_the_end"] = errExpected
	ctx.Cov["read_fault_runs"] = faults
	ctx.Cov["max_lines"] = maxLines
	ctx.Cov["long_function_sweep_max"] = c16LongFunctions
	ctx.Cov["unresolvable_site_count_sweep_max"] = c16ManyUnresolved
	ctx.Cov["rule"] = fmt.Sprintf("all texts of <= %d lines over a %d-shape line alphabet (5 kinds of function marker incl. 'TEXT ', bare 'TEXT' and a generic symbol containing blanks, raw syscall instruction with and without location fields, the other architecture's raw instruction, number loads into AX/BP/stack, negative/unparsable/unknown numbers, the XOR idiom, calls of syscall.Syscall with and without location fields, neutral, empty and a 70000-byte line - anywhere in texts of <= 3 lines, last or followed only by site-forming lines in longer ones) for both parsers, with and without trailing newline, parsed by the real ExtractSyscalls under recover and compared with an independent site-model parser (number, name, caller, location), with the oracle tables, for monotonicity under appended functions and for an error whenever the text cannot be read to the end; plus the real `go tool objdump` output of a sample Go program built for amd64 and 386 (whole, and cut at function boundaries) compared with a text-level site model written without regular expressions, generated multi-function listings (all twelve wrapper entry points as callees and as containing functions; function markers of 600 and 5000 bytes; also with numbers carrying the x32 marker bit 0x40000000 on top of a valid number), a size sweep (load and site n neutral instructions apart for every n up to the bound in long_function_sweep_max, alone and followed by another function), a count sweep (m functions whose site has no determinable number - no load, an unparsable number, an unknown number - between two ordinary sites, for every m up to the bound in unresolvable_site_count_sweep_max), the same three listings read through a named pipe written in pieces, a read error injected (strace) at every read call of 3 listings (EIO once; then EAGAIN, ENOMEM and EIO once and from that call on for good, EINTR once, EAGAIN on every second call - extraction has to return within a 60 s horizon and a nil error still means the whole text), and every sequence of <= 3 (thorough 4) calls over {x86_64, x32, i386, arm} on one listing in one fresh process (each x86_64 / i386 answer must be the listing's sites whatever was called before); non-trivial = parses that report at least one syscall", maxLines, shCount)
	ctx.Assumptions = []string{"site model: the number is taken from the nearest preceding number-loading instruction of the same function after the previous detected site; raw sites inside syscall.Syscall wrappers are not sites", "strace fault injection (-e inject=read:error=EIO:when=N) realises read failures"}
	ctx.Sample(map[string]any{"text": []string{"TEXT main.f0(SB) /src/f.go", "  f.go:1\t0x401001\t0f05\tMOVQ $0x3b, AX", "TEXT main.f2(SB) /src/f.go", "  f.go:3\t0x401003\t0f05\tSYSCALL"}, "expected": "no syscall: the load belongs to another function"})
	return ctx.Finish()
}

type checkTextAdapter func(pc int, shapes []int)

// c16Listings: well-formed listings of up to 3 functions x up to 2 sites from the site model.
func c16Listings(ctx *evid.Ctx, check checkTextAdapter, tier string) {
	loads := []int{shLoadAX, shLoadBP, shLoadNeg, shLoadUnknown, shXor, shNeutral, shLoadStack, shLoadX32AX, shLoadX32Stack}
	sites := []int{shRaw, shCall, shRaw2, shCall2, shCall3}
	type site struct{ load, kind int }
	var all []site
	for _, l := range loads {
		for _, k := range sites {
			all = append(all, site{l, k})
		}
	}
	var fn [][]int // function bodies
	for _, a := range all {
		fn = append(fn, []int{a.load, shNeutral, a.kind}, []int{a.load, a.kind})
		for _, b := range all {
			fn = append(fn, []int{a.load, a.kind, b.load, shNeutral, b.kind}, []int{a.load, a.kind, shNeutral, b.kind})
		}
	}
	// every function body is paired with a rotating selection of second bodies (quick: 16 each, thorough: 128 each)
	step := len(fn) / 128
	if tier == "quick" {
		step = len(fn) / 16
	}
	if step < 1 {
		step = 1
	}
	var jobs [][]int
	for i := 0; i < len(fn); i++ {
		for j := i % step; j < len(fn); j += step {
			t := append([]int{shFunc}, fn[i]...)
			t = append(t, shFunc)
			t = append(t, fn[j]...)
			jobs = append(jobs, t)
			t2 := append(append([]int{}, t...), shFuncSys, shLoadAX, shRaw, shFunc, shLoadStack, shCall)
			jobs = append(jobs, t2)

		}
	}
	// every one of the twelve wrapper entry points: as the callee of a call site (after every kind of load, alone and
	// followed/preceded by another site), and as the function that contains raw syscall instructions (not sites there)
	for w := 0; w < 12; w++ {
		for _, l := range loads {
			jobs = append(jobs, []int{shFunc, l, shCallW0 + w}, []int{shFunc, l, shNeutral, shCallW0 + w, shLoadAX, shRaw}, []int{shFunc, shLoadAX, shRaw, l, shCallW0 + w, shFunc, shLoadStack, shCall})
			jobs = append(jobs, []int{shFuncW0 + w, l, shRaw, shFunc, shLoadAX, shRaw}, []int{shFunc, shLoadBP, shRaw, shFuncW0 + w, l, shRaw, shLoadStack, shCallW0 + (w+1)%12})
		}
	}
	// long function markers between two functions with sites: the marker still ends the first function
	for _, lf := range []int{shFuncLong600, shFuncLong5000} {
		for _, l := range loads {
			jobs = append(jobs, []int{shFunc, l, lf, shRaw, shLoadStack, shCall}, []int{shFunc, l, shRaw, lf, l, shNeutral, shRaw, shFunc, shLoadAX, shRaw}, []int{lf, l, shRaw})
		}
	}
	// size sweep: a function whose number load and site are n neutral instructions apart, for every n up to the bound (the text
	// of one function then crosses every buffer size of the reader: 4 KiB at n=100, 64 KiB at n~1600), alone and followed
	// by a function that loads another number; the site model is indifferent to n
	maxN, stepN := 320, 1
	if tier == "thorough" {
		maxN = 3400
	}
	for n := 0; n <= maxN; n += stepN {
		if n > 400 {
			stepN = 7
		}
		for _, k := range []struct{ load, site int }{{shLoadAX, shRaw}, {shLoadStack, shCall}} {
			t := []int{shFunc, k.load}
			for i := 0; i < n; i++ {
				t = append(t, shNeutral)
			}
			t = append(t, k.site)
			jobs = append(jobs, t)
			jobs = append(jobs, append(append([]int{}, t...), shFunc, shLoadBP, shRaw, shLoadStack, shNeutral, shCall))
		}
	}
	c16LongFunctions = maxN
	// count sweep: m sites whose number cannot be determined (no load in the function, an unparsable or unknown number), each in
	// its own function, between two ordinary sites, for every m up to the bound: a text with many such sites is still a readable
	// text, and what was found before and after them is still reported
	maxM := 320
	if tier == "thorough" {
		maxM = 2200
	}
	stepM := 1
	for m := 0; m <= maxM; m += stepM {
		if m > 400 {
			stepM = 13
		}
		for _, bad := range [][]int{{shCall}, {shRaw}, {shLoadBad, shRaw}, {shLoadUnknown, shNeutral, shCall}} {
			t := []int{shFunc, shLoadAX, shRaw}
			for i := 0; i < m; i++ {
				t = append(t, shFunc)
				t = append(t, bad...)
			}
			t = append(t, shFunc, shLoadBP, shRaw)
			jobs = append(jobs, t)
		}
	}
	c16ManyUnresolved = maxM
	parallelFor(len(jobs), func(i int) {
		check(0, jobs[i])
		check(1, jobs[i])
	})
}

var c16LongFunctions, c16ManyUnresolved int
var c16FaultKinds sync.Map
var errC16Horizon = errors.New("horizon reached")

// c16ReadFaults: for a few listings, fail the N-th read of the file for every N; also unreadable inputs.
func c16ReadFaults(ctx *evid.Ctx, scratch string) int64 {
	var runs int64
	self, _ := os.Executable()
	run := func(wrapper []string, archName, path string) (map[string]any, error) {
		cctx, cancel := context.WithTimeout(context.Background(), 60*time.Second)
		defer cancel()
		argv := append(append([]string{}, wrapper...), self, "child", "extract", archName, path)
		cmd := exec.CommandContext(cctx, argv[0], argv[1:]...)
		// at the horizon the tracer and the traced child go together (a child that merely lost its tracer would carry
		// on without the injected fault and print an ordinary result)
		cmd.SysProcAttr = &syscall.SysProcAttr{Setpgid: true}
		cmd.Cancel = func() error { return syscall.Kill(-cmd.Process.Pid, syscall.SIGKILL) }
		cmd.WaitDelay = 5 * time.Second
		var so, se bytes.Buffer
		cmd.Stdout, cmd.Stderr = &so, &se
		err := cmd.Run()
		if cctx.Err() == context.DeadlineExceeded {
			return nil, fmt.Errorf("%w (no result after 60 s; stderr=%.200s)", errC16Horizon, se.String())
		}
		var out map[string]any
		if json.Unmarshal(bytes.TrimSpace(so.Bytes()), &out) != nil {
			return nil, fmt.Errorf("no result (err=%v, stderr=%.300s)", err, se.String())
		}
		return out, nil
	}
	// unreadable inputs: directory, missing file
	for _, p := range []string{scratch, filepath.Join(scratch, "missing.txt")} {
		out, err := run(nil, "x86_64", p)
		runs++
		if err != nil {
			ctx.Violation("C16:fault:crash", "extraction crashed on an unreadable input: "+err.Error(), map[string]any{"path_kind": p})
			continue
		}
		if out["err"] == nil {
			ctx.Violation("C16:fault:unreadable-without-error", fmt.Sprintf("input %s cannot be read but ExtractSyscalls returned nil error (%v syscalls)", map[bool]string{true: "is a directory", false: "does not exist"}[p == scratch], out["n"]), map[string]any{"directory": p == scratch})
		}
	}
	if !straceWorks() {
		ctx.Capped("strace cannot trace here: read faults not injected")
		return runs
	}
	// listings of increasing size: number of read calls grows with the size (4096-byte buffered reads)
	for li, nFuncs := range []int{3, 60, 300} {
		var b strings.Builder
		for f := 0; f < nFuncs; f++ {
			fmt.Fprintf(&b, "TEXT main.g%d(SB) /src/g.go\n  g.go:%d\t0x1\t90\tMOVQ $0x%x, AX\n  g.go:%d\t0x2\t0f05\tSYSCALL\n", f, 2*f, f%300, 2*f+1)
		}
		path := filepath.Join(scratch, fmt.Sprintf("listing%d.txt", li))
		os.WriteFile(path, []byte(b.String()), 0o644)
		base, err := run(nil, "x86_64", path)
		if err != nil || base["err"] != nil {
			ctx.Capped("baseline extraction failed in the fault harness")
			continue
		}
		total := int(base["n"].(float64))
		// the same text arriving through a named pipe (its size as a file says nothing about its content), written in pieces
		for _, chunk := range []int{b.Len(), 4096, 1000} {
			fifo := filepath.Join(scratch, fmt.Sprintf("fifo%d-%d", li, chunk))
			if syscall.Mkfifo(fifo, 0o644) != nil {
				ctx.Capped("cannot create a named pipe")
				break
			}
			wdone := make(chan struct{})
			go func() {
				defer close(wdone)
				f, err := os.OpenFile(fifo, os.O_WRONLY, 0)
				if err != nil {
					return
				}
				defer f.Close()
				data := []byte(b.String())
				for len(data) > 0 {
					k := chunk
					if k > len(data) {
						k = len(data)
					}
					if _, err := f.Write(data[:k]); err != nil {
						return
					}
					data = data[k:]
				}
			}()
			out, err := run(nil, "x86_64", fifo)
			runs++
			// release a writer that nobody read from (a reader that never opened the pipe)
			if rf, e := os.OpenFile(fifo, os.O_RDONLY|syscall.O_NONBLOCK, 0); e == nil {
				rf.Close()
			}
			<-wdone
			os.Remove(fifo)
			if err != nil {
				ctx.Violation("C16:fault:crash", "extraction crashed on a named pipe: "+err.Error(), map[string]any{"listing": li, "pipe": true})
				continue
			}
			if got := int(out["n"].(float64)); out["err"] == nil && got < total {
				ctx.Violation("C16:fault:pipe-partial-without-error", fmt.Sprintf("a %d-byte listing read through a named pipe (written in pieces of %d bytes) gave nil error and %d of %d syscalls", b.Len(), chunk, got, total), map[string]any{"listing_functions": nFuncs, "pipe_chunk": chunk})
			}
		}
		reads := 40
		for n := 1; n <= 40; n++ {
			out, err := run([]string{"strace", "-f", "-o", "/dev/null", "-P", path, "-e", "trace=read", "-e", fmt.Sprintf("inject=read:error=EIO:when=%d", n)}, "x86_64", path)
			runs++
			if err != nil {
				ctx.Violation("C16:fault:crash", "extraction crashed under an injected read error: "+err.Error(), map[string]any{"listing": li, "when": n})
				continue
			}
			got := int(out["n"].(float64))
			if out["err"] == nil && got < total {
				ctx.Violation("C16:fault:partial-without-error", fmt.Sprintf("read #%d of a %d-byte listing failed with EIO, yet ExtractSyscalls returned nil error and %d of %d syscalls", n, b.Len(), got, total), map[string]any{"listing_functions": nFuncs, "failing_read": n})
			}
			if out["err"] == nil && got == total {
				reads = n - 1
				break // the injected read index is beyond the reads of this file
			}
		}
		// other kinds of read failure at every read call: errors that invite a retry (EAGAIN, EINTR, ENOMEM), once and
		// from that call on for good. Whatever the library does about them it has to come back (horizon: 60 s for a
		// listing that is parsed in milliseconds), and a nil error still means the whole text. (A persistent EINTR is
		// not offered: Go's own os.File.Read repeats the call on EINTR, so that hang would not be the library's.)
		for _, fk := range []struct{ errno, when string }{{"EAGAIN", "%d"}, {"EAGAIN", "%d+"}, {"EINTR", "%d"}, {"ENOMEM", "%d"}, {"ENOMEM", "%d+"}, {"EIO", "%d+"}, {"EAGAIN", "%d+2"}} {
			for n := 1; n <= reads; n++ {
				when := fmt.Sprintf(fk.when, n)
				out, err := run([]string{"strace", "-f", "-o", "/dev/null", "-P", path, "-e", "trace=read", "-e", "inject=read:error=" + fk.errno + ":when=" + when}, "x86_64", path)
				runs++
				c16FaultKinds.Store(fk.errno+":"+strings.Replace(fk.when, "%d", "N", 1), true)
				if errors.Is(err, errC16Horizon) {
					ctx.Violation("C16:fault:no-termination", fmt.Sprintf("with read(2) answering %s (strace when=%s) on a %d-byte listing, ExtractSyscalls did not return: %v", fk.errno, when, b.Len(), err), map[string]any{"listing_functions": nFuncs, "errno": fk.errno, "when": when})
					break
				}
				if err != nil {
					ctx.Violation("C16:fault:crash", "extraction crashed under an injected read error: "+err.Error(), map[string]any{"listing": li, "errno": fk.errno, "when": when})
					continue
				}
				if got := int(out["n"].(float64)); out["err"] == nil && got < total {
					ctx.Violation("C16:fault:partial-without-error", fmt.Sprintf("read(2) answering %s (strace when=%s) on a %d-byte listing, yet ExtractSyscalls returned nil error and %d of %d syscalls", fk.errno, when, b.Len(), got, total), map[string]any{"listing_functions": nFuncs, "errno": fk.errno, "when": when})
				}
			}
		}
	}
	return runs
}
