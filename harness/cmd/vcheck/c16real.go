package main

import (
	"fmt"
	"os"
	"os/exec"
	"path/filepath"
	"strconv"
	"strings"
	"sync/atomic"

	"github.com/elastic/go-seccomp-bpf/arch"

	"verif/harness/evid"
)

// Real listings. The exhaustive part of C16 works on a synthetic line alphabet; this phase binds that alphabet to what
// `go tool objdump` really prints: a Go program that reaches the kernel through the usual routes is built for amd64 and
// 386, disassembled with the real tool, and the result of ExtractSyscalls on the real text - and on its prefixes at
// function boundaries - is compared with a site model written independently of the parser (string scanning, no regular
// expressions) over the raw text.

var c16Wrappers = []string{"syscall.Syscall(SB)", "syscall.Syscall6(SB)", "syscall.rawVforkSyscall(SB)", "syscall.RawSyscall(SB)", "syscall.RawSyscall6(SB)",
	"unix.RawSyscall(SB)", "unix.RawSyscall6(SB)", "unix.RawSyscallNoError(SB)", "unix.Syscall(SB)", "unix.Syscall6(SB)", "unix.Syscall9(SB)", "unix.SyscallNoError(SB)"}

func namesWrapper(s string) bool {
	for _, w := range c16Wrappers {
		if strings.Contains(s, w) {
			return true
		}
	}
	return false
}

// immediateLoad recognises "MOV? $<imm>, <dst...>" in a line and returns the immediate text for a destination that starts
// with one of dsts (the text between "$" and the LAST ", <dst>" of the line, as a greedy match would have it).
func immediateLoad(line string, dsts []string) (string, bool) {
	for from := 0; ; {
		i := strings.Index(line[from:], "MOV")
		if i < 0 {
			return "", false
		}
		p := from + i + 3
		from = p
		if p < len(line) && line[p] >= 'A' && line[p] <= 'Z' {
			p++
		}
		if !strings.HasPrefix(line[p:], " $") {
			continue
		}
		rest := line[p+2:]
		best := -1
		for _, d := range dsts {
			if k := strings.LastIndex(rest, ", "+d); k > best {
				best = k
			}
		}
		if best >= 1 {
			return rest[:best], true
		}
	}
}

// modelExtractLines is the site model over raw text lines.
func modelExtractLines(lines []string, i386 bool, names map[int]string) (sites []modelSite) {
	raws := []string{"SYSCALL"}
	if i386 {
		raws = []string{"INT $0x80", "SYSENTER"}
	}
	function := ""
	var window []string
	for _, line := range lines {
		window = append(window, line)
		if strings.HasPrefix(line, "TEXT") {
			function = strings.TrimPrefix(line[4:], " ")
			window = window[:0]
			continue
		}
		isRaw := false
		for _, r := range raws {
			if strings.Contains(line, r) {
				isRaw = true
			}
		}
		var dsts []string
		switch {
		case isRaw && !namesWrapper(function):
			if len(window) >= 2 && strings.Contains(window[len(window)-2], "XORL AX, AX") {
				f := strings.Fields(line)
				window = window[:0]
				if n, ok := names[0]; ok {
					sites = append(sites, modelSite{0, n, function, f[0]})
				}
				continue
			}
			dsts = []string{"AX", "BP"}
		case strings.Contains(line, "CALL") && namesWrapper(line):
			dsts = []string{"0(SP)"}
		default:
			continue
		}
		found, bad, num := false, false, 0
		for k := len(window) - 1; k >= 0 && !found && !bad; k-- {
			if imm, ok := immediateLoad(window[k], dsts); ok {
				v, err := strconv.ParseInt(imm, 0, 64)
				if err != nil {
					bad = true
				} else {
					found, num = true, int(v)
				}
			}
		}
		if !found {
			continue
		}
		window = window[:0]
		if n, ok := names[num]; ok {
			sites = append(sites, modelSite{num, n, function, strings.Fields(line)[0]})
		}
	}
	return sites
}

func c16RealListings(ctx *evid.Ctx, scratch string, tier string, namesOf map[string]map[int]string) (lines, sites, prefixes int64) {
	type tgt struct {
		goarch string
		info   *arch.Info
		label  string
	}
	tgts := []tgt{{"amd64", arch.X86_64, "x86_64"}, {"386", arch.I386, "i386"}}
	parallelFor(len(tgts), func(i int) {
		t := tgts[i]
		bin, err := buildTool(scratch, "sysuser-"+t.goarch, "./cmd/sysuser", "GOARCH="+t.goarch, "GOOS=linux", "CGO_ENABLED=0")
		if err != nil {
			ctx.Capped("real-listing phase: cannot build the sample program for " + t.goarch + ": " + err.Error())
			return
		}
		out, err := exec.Command("go", "tool", "objdump", bin).Output()
		if err != nil || len(out) < 100000 {
			ctx.Capped(fmt.Sprintf("real-listing phase: go tool objdump failed for %s (%v, %d bytes)", t.goarch, err, len(out)))
			return
		}
		text := string(out)
		all := strings.Split(strings.TrimSuffix(text, "\n"), "\n")
		atomic.AddInt64(&lines, int64(len(all)))
		// function boundaries
		var bounds []int // line indices where a function starts
		for k, l := range all {
			if strings.HasPrefix(l, "TEXT") {
				bounds = append(bounds, k)
			}
		}
		nPre := 24
		if tier == "thorough" {
			nPre = 400
		}
		cuts := []int{len(all)}
		for k := 1; k <= nPre; k++ {
			cuts = append(cuts, bounds[(len(bounds)-1)*k/(nPre+1)])
		}
		var full []modelSite
		for ci, cut := range cuts {
			path := filepath.Join(scratch, fmt.Sprintf("real-%s-%d.lst", t.goarch, ci))
			os.WriteFile(path, []byte(strings.Join(all[:cut], "\n")+"\n"), 0o644)
			r := realExtract(t.info, path)
			os.Remove(path)
			want := modelExtractLines(all[:cut], t.goarch == "386", namesOf[t.label])
			rep := map[string]any{"real_listing": t.goarch, "lines": cut}
			if r.panicked != nil || r.err != nil {
				ctx.Violation("C16:real-listing:failed:"+t.label, fmt.Sprintf("ExtractSyscalls on the first %d lines of a real %s listing: panic=%v err=%v", cut, t.goarch, r.panicked, r.err), rep)
				return
			}
			same := len(r.sites) == len(want)
			first := -1
			for k := 0; k < len(want) && k < len(r.sites); k++ {
				if r.sites[k] != want[k] {
					same = false
					if first < 0 {
						first = k
					}
				}
			}
			if !same {
				d := fmt.Sprintf("%d sites reported, %d expected", len(r.sites), len(want))
				if first >= 0 {
					d += fmt.Sprintf("; first difference at #%d: reported %+v, site model %+v", first, r.sites[first], want[first])
				}
				ctx.Violation("C16:real-listing:site-model:"+t.label, fmt.Sprintf("first %d lines of the real %s listing: %s", cut, t.goarch, d), rep)
				return
			}
			for _, s := range r.sites {
				if namesOf[t.label][s.Num] != s.Name {
					ctx.Violation("C16:real-listing:name:"+t.label, fmt.Sprintf("reported syscall %d as %q, table says %q", s.Num, s.Name, namesOf[t.label][s.Num]), rep)
				}
			}
			if ci == 0 {
				full = r.sites
				atomic.AddInt64(&sites, int64(len(full)))
				// sanity of the phase itself: the sample program must show the routes it was written for
				seen := map[string]bool{}
				for _, s := range full {
					seen[s.Name] = true
				}
				// (which of the program's own calls are found depends on the calling convention: with register arguments the
				// number of a syscall.Syscall call is not stored to the stack, and the parser - like the model - does not see it)
				for _, must := range []string{"write", "exit_group"} {
					if !seen[must] {
						ctx.Capped(fmt.Sprintf("real-listing phase: %q was not found in the %s sample program (toolchain prints something the phase does not expect)", must, t.goarch))
					}
				}
				if len(full) < 20 {
					ctx.Capped(fmt.Sprintf("real-listing phase: only %d syscall sites in the %s sample program", len(full), t.goarch))
				}
			} else {
				atomic.AddInt64(&prefixes, 1)
				// monotonicity on real text: the prefix's syscalls are a prefix of the whole listing's
				ok := len(r.sites) <= len(full)
				for k := 0; ok && k < len(r.sites); k++ {
					ok = r.sites[k] == full[k]
				}
				if !ok {
					ctx.Violation("C16:real-listing:not-monotone:"+t.label, fmt.Sprintf("the first %d lines of the real %s listing (ending at a function boundary) yield syscalls that the whole listing does not start with", cut, t.goarch), rep)
				}
			}
		}
	})
	return
}
