package main

import (
	"bufio"
	"encoding/json"
	"fmt"
	"os"
	"path/filepath"
	"strings"
	"sync/atomic"
	"time"

	"github.com/elastic/go-seccomp-bpf/arch"

	"verif/harness/evid"
)

// Call sequences. Everything else in C16 asks what one call of ExtractSyscalls returns; the property speaks about every
// call, and the parsers are package-level values shared by all calls of a process. This phase runs every sequence of up
// to three calls over {x86_64, x32 (same audit id as x86_64, another table), i386, arm (no parser)} on one listing in a
// fresh child process and compares each x86_64 / i386 answer with the text-level site model - a call must not depend on
// which calls came before it.

type seqScript struct {
	Text  string   `json:"text"`
	Archs []string `json:"archs"`
}

type seqStep struct {
	Arch    string      `json:"arch"`
	Err     string      `json:"err,omitempty"`
	Panic   string      `json:"panic,omitempty"`
	Sites   []modelSite `json:"sites"`
	NilList bool        `json:"nil_list"`
}

var seqArchs = map[string]*arch.Info{"x86_64": arch.X86_64, "x32": arch.X32, "i386": arch.I386, "arm": arch.ARM}

func init() { childCmds["extractseq"] = childExtractSeq }

func childExtractSeq(args []string) {
	var sc seqScript
	if err := json.NewDecoder(bufio.NewReader(os.Stdin)).Decode(&sc); err != nil {
		os.Exit(2)
	}
	if devnull, err := os.OpenFile(os.DevNull, os.O_WRONLY, 0); err == nil {
		os.Stderr = devnull
	}
	d, err := os.MkdirTemp("", "c16seq")
	if err != nil {
		os.Exit(2)
	}
	defer os.RemoveAll(d)
	path := filepath.Join(d, "listing.txt")
	os.WriteFile(path, []byte(sc.Text), 0o644)
	var out []seqStep
	for _, a := range sc.Archs {
		r := realExtract(seqArchs[a], path)
		st := seqStep{Arch: a, Sites: r.sites, NilList: r.isNil}
		if r.err != nil {
			st.Err = r.err.Error()
		}
		if r.panicked != nil {
			st.Panic = fmt.Sprint(r.panicked)
		}
		out = append(out, st)
	}
	b, _ := json.Marshal(out)
	os.Stdout.Write(append(b, '\n'))
	os.RemoveAll(d)
	os.Exit(0)
}

// c16SeqText: sites whose numbers are in both x86 tables, only in x86_64's, only in x32's (>= 512), and i386 sites.
func c16SeqText() string {
	var b strings.Builder
	n := 0
	fn := func(name string, lines ...string) {
		fmt.Fprintf(&b, "TEXT main.%s(SB) /src/f.go\n", name)
		for _, l := range lines {
			n++
			fmt.Fprintf(&b, "  f.go:%d\t0x%x\t0f05\t%s\n", n, 0x401000+n, l)
		}
		b.WriteByte('\n')
	}
	fn("both", "MOVQ $0x3, AX", "SYSCALL")                         // close: same in x86_64 and x32
	fn("only64", "MOVQ $0xd, AX", "SYSCALL")                       // 13 rt_sigaction: x86_64 only
	fn("only64b", "MOVQ $0x10, AX", "SYSCALL")                     // 16 ioctl: x86_64 only
	fn("onlyx32", "MOVQ $0x200, AX", "SYSCALL")                    // 512: x32 only
	fn("onlyx32b", "MOVQ $0x202, AX", "SYSCALL")                   // 514: x32 only
	fn("wrapped", "MOVQ $0x3b, 0(SP)", "CALL syscall.Syscall(SB)") // 59 execve on x86_64, olduname on i386
	fn("int80", "MOVL $0x14, AX", "INT $0x80")                     // 20 getpid on i386
	fn("int80b", "MOVL $0x66, AX", "INT $0x80")                    // 102 socketcall on i386 (getuid on x86_64, were it a site there)
	return b.String()
}

func c16Sequences(ctx *evid.Ctx, tier string, namesOf map[string]map[int]string, only []string) (seqs, steps int64) {
	text := c16SeqText()
	lines := strings.Split(strings.TrimSuffix(text, "\n"), "\n")
	alpha := []string{"x86_64", "x32", "i386", "arm"}
	maxLen := 3
	if tier == "thorough" {
		maxLen = 4
	}
	var all [][]string
	var rec func(cur []string)
	rec = func(cur []string) {
		if len(cur) > 0 {
			all = append(all, append([]string{}, cur...))
		}
		if len(cur) == maxLen {
			return
		}
		for _, a := range alpha {
			rec(append(cur, a))
		}
	}
	rec(nil)
	if only != nil {
		all = [][]string{only}
	}
	want := map[string][]modelSite{"x86_64": modelExtractLines(lines, false, namesOf["x86_64"]), "i386": modelExtractLines(lines, true, namesOf["i386"])}
	if len(want["x86_64"]) < 4 || len(want["i386"]) < 2 {
		ctx.Capped("call-sequence phase: the listing does not have the sites it was written for")
		return
	}
	parallelFor(len(all), func(i int) {
		sq := all[i]
		var out []seqStep
		sig, exit, se, err := runChildJSON(60*time.Second, false, nil, "extractseq", seqScript{Text: text, Archs: sq}, &out)
		if err != nil || sig != 0 || exit != 0 || len(out) != len(sq) {
			ctx.Capped("a call-sequence child did not complete")
			fmt.Printf("HARNESS-ERROR C16 call-sequence child failed for %v: %v sig=%v exit=%d %.200s\n", sq, err, sig, exit, se)
			return
		}
		atomic.AddInt64(&seqs, 1)
		for k, st := range out {
			atomic.AddInt64(&steps, 1)
			rep := map[string]any{"call_sequence": sq, "step": k, "listing": text}
			if st.Panic != "" {
				ctx.Violation("C16:sequence:panic:"+st.Arch, fmt.Sprintf("call #%d of the sequence %v (ExtractSyscalls for %s) panicked: %s", k+1, sq, st.Arch, st.Panic), rep)
				continue
			}
			switch st.Arch {
			case "arm":
				if st.Err == "" || len(st.Sites) != 0 {
					ctx.Violation("C16:sequence:unsupported-arch", fmt.Sprintf("call #%d of %v: ExtractSyscalls for arm (no parser) returned err=%q and %d sites", k+1, sq, st.Err, len(st.Sites)), rep)
				}
			case "x86_64", "i386":
				w := want[st.Arch]
				same := st.Err == "" && len(st.Sites) == len(w)
				for j := 0; same && j < len(w); j++ {
					same = st.Sites[j] == w[j]
				}
				if !same {
					ctx.Violation("C16:sequence:depends-on-earlier-calls:"+st.Arch, fmt.Sprintf("call #%d of the sequence %v in one process: ExtractSyscalls for %s returned err=%q %+v; the listing's sites for that architecture are %+v (as a first call returns them)", k+1, sq, st.Arch, st.Err, st.Sites, w), rep)
				}
			}
		}
	})
	return
}
