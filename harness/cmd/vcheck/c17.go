package main

import (
	"fmt"
	"os"
	"os/exec"
	"path/filepath"
	"strconv"
	"strings"
	"sync"
	"sync/atomic"
	"syscall"
	"time"

	"verif/harness/evid"
)

func init() { register("C17", checkC17) }

// c17Listing: 6 functions, 5 syscall sites (read, write, execve, exit_group via wrapper, getpid), padded to about `size` bytes.
func c17Listing(size int) string {
	var b strings.Builder
	line := 0
	ins := func(asm string) {
		line++
		fmt.Fprintf(&b, "  main.go:%d\t0x%x\t0f05\t%s\n", line, 0x401000+line, asm)
	}
	fn := func(name string) { fmt.Fprintf(&b, "TEXT %s(SB) /src/main.go\n", name) }
	section := 0
	pad := func() {
		section++
		for target := size * section / 6; b.Len() < target; {
			ins("NOPL 0(AX)(AX*1)")
		}
	}
	fn("main.main")
	ins("MOVQ $0x0, AX")
	ins("SYSCALL")
	pad()
	fn("main.w")
	ins("MOVQ $0x1, AX")
	ins("NOPL")
	ins("SYSCALL")
	pad()
	fn("main.helper")
	ins("NOPL")
	pad()
	fn("main.e")
	ins("MOVQ $0x3b, AX")
	ins("SYSCALL")
	pad()
	fn("main.x")
	ins("MOVQ $0xe7, 0(SP)")
	ins("CALL syscall.Syscall(SB)")
	pad()
	fn("main.p")
	ins("MOVL $0x27, AX")
	ins("SYSCALL")
	for b.Len() < size {
		ins("NOPL 0(AX)(AX*1)")
	}
	return b.String()
}

func checkC17(tier, replay string) int {
	ctx := evid.New("C17", tier, "fault_enumeration")
	scratch, _ := os.MkdirTemp("", "c17")
	defer os.RemoveAll(scratch)
	pe, err := newProfEnv(scratch)
	if err != nil {
		fmt.Println("harness setup failed:", err)
		return 2
	}
	var cacheFiles []string
	defer func() {
		for _, f := range cacheFiles {
			os.Remove(f)
			os.Remove(f + ".tmp")
		}
		// temp files a repaired profiler may leave next to the cache files
		if m, _ := filepath.Glob(filepath.Join(pe.home, ".seccomp-profiler", fmt.Sprintf("c17-%d-*", os.Getpid()))); m != nil {
			for _, f := range m {
				os.Remove(f)
			}
		}
	}()
	small := filepath.Join(scratch, "small.lst")
	big := filepath.Join(scratch, "big.lst")
	L := c17Listing(1500)
	LB := c17Listing(20000)
	os.WriteFile(small, []byte(L), 0o644)
	os.WriteFile(big, []byte(LB), 0o644)
	var seq int64
	newBin := func() (string, string) {
		n := atomic.AddInt64(&seq, 1)
		p := filepath.Join(scratch, fmt.Sprintf("c17-%d-%d", os.Getpid(), n))
		if os.Link(pe.hello["amd64"], p) != nil {
			copyFile(pe.hello["amd64"], p)
		}
		return p, profilerCachePath(pe.home, p)
	}
	runProf := func(bin, listing string, extra []string, wrapper ...string) cmdResult {
		argv := append(append([]string{}, wrapper...), pe.profiler, "-format", "config", bin)
		return runCmd(60*time.Second, pe.env(listing, extra), scratch, argv...)
	}
	cold := map[string]string{}
	coldCache := map[string]string{}
	for _, lst := range []string{small, big} {
		bin, cache := newBin()
		r := runProf(bin, lst, nil)
		if r.Exit != 0 || !strings.Contains(r.Stdout, "execve") {
			fmt.Printf("harness setup failed: cold profile run: exit=%d stdout=%q stderr=%q\n", r.Exit, r.Stdout, r.Stderr)
			return 2
		}
		cold[lst] = r.Stdout
		cb, _ := os.ReadFile(cache)
		// the cache content is the hash line + listing; strip the hash line for comparison across binaries (same content hash anyway)
		coldCache[lst] = string(cb)
		cacheFiles = append(cacheFiles, cache)
		os.Remove(cache)
	}
	otherTmp := c17OtherFsTmp(pe.home)
	if otherTmp != "" {
		defer os.RemoveAll(otherTmp)
	}
	ctx.Cov["tmpdir_on_another_file_system"] = otherTmp != ""
	ctx.Sample(map[string]any{"cold_profile": cold[small], "listing_bytes": len(L), "big_listing_bytes": len(LB)})
	type fault struct {
		Kind    string `json:"kind"` // cut-exit | cut-kill | tool-missing | kill-at-write | err-at-write | none
		P       int    `json:"p,omitempty"`
		N       int    `json:"n,omitempty"`
		Listing string `json:"listing"`
		// the run's TMPDIR is a directory on a different file system than the cache directory (a rename between the two
		// is refused with EXDEV; nothing about the cache may depend on where temporary files live)
		OtherTmp bool `json:"tmpdir_on_other_fs,omitempty"`
		// the disassembler does not check what becomes of its output (go tool objdump does not): only with faults that hit
		// files, never pipes - whoever writes the cache file then has to notice
		IgnWErr bool `json:"disassembler_ignores_write_errors,omitempty"`
	}
	type history struct {
		Faults []fault `json:"faults"`
	}
	var hs []history
	var replayRepl *[4]string
	var replayCrash *c17CrashCase
	if replay != "" {
		var f struct {
			Case history `json:"case"`
		}
		if err := readJSON(replay, &f); err != nil {
			fmt.Println(err)
			return 2
		}
		var mc struct {
			Case c17CrashCase `json:"case"`
		}
		if readJSON(replay, &mc) == nil && mc.Case.MachineCrash {
			replayCrash = &mc.Case
		} else if len(f.Case.Faults) > 0 {
			hs = []history{f.Case}
		} else {
			// a replacement history: {kind, hash_fault, tool_fault}
			var g struct {
				Case struct {
					Kind      string `json:"kind"`
					HashFault int    `json:"hash_fault"`
					ToolFault string `json:"tool_fault"`
					OldMtime  bool   `json:"old_mtime"`
				} `json:"case"`
			}
			if err := readJSON(replay, &g); err != nil || g.Case.Kind == "" {
				fmt.Println("replay file holds neither a fault history nor a replacement history", err)
				return 2
			}
			replayRepl = &[4]string{g.Case.Kind, fmt.Sprint(g.Case.HashFault), g.Case.ToolFault, fmt.Sprint(g.Case.OldMtime)}
		}
	} else {
		// byte positions of interest
		pos := map[int]bool{0: true, len(L): true, len(L) - 1: true}
		off := 0
		for li, ln := range strings.SplitAfter(L, "\n") {
			pos[off] = true
			if tier == "thorough" || li < 2 || strings.Contains(ln, "$0x3b") || strings.Contains(ln, "SYSCALL") && li < 8 {
				for k := 0; k <= len(ln); k++ {
					pos[off+k] = true
				}
			}
			off += len(ln)
		}
		for p := range pos {
			if p > len(L) {
				continue
			}
			hs = append(hs, history{[]fault{{Kind: "cut-exit", P: p, Listing: "small"}}})
			if tier == "thorough" || p%7 == 0 {
				hs = append(hs, history{[]fault{{Kind: "cut-kill", P: p, Listing: "small"}}})
			}
		}
		// big listing: cuts around every 4096-byte flush boundary and at line boundaries
		for p := 0; p <= len(LB); p += 4096 {
			for _, d := range []int{-1, 0, 1, 63, 64, 65} {
				if q := p + d; q >= 0 && q <= len(LB) {
					hs = append(hs, history{[]fault{{Kind: "cut-exit", P: q, Listing: "big"}}})
				}
			}
		}
		hs = append(hs, history{[]fault{{Kind: "tool-missing", Listing: "small"}}}, history{[]fault{{Kind: "tool-missing", Listing: "big"}}})
		// the profiler itself is killed (SIGKILL: no deferred clean-up runs) after the disassembler has produced p bytes
		for p := 0; p <= len(LB); p += 1024 {
			hs = append(hs, history{[]fault{{Kind: "kill-profiler-after", P: p, Listing: "big"}}})
		}
		for _, p := range []int{0, 1, 64, 65, 700, len(L) - 1, len(L)} {
			hs = append(hs, history{[]fault{{Kind: "kill-profiler-after", P: p, Listing: "small"}}})
		}
		for n := 1; n <= 18; n++ {
			hs = append(hs, history{[]fault{{Kind: "kill-at-write", N: n, Listing: "big"}}})
			hs = append(hs, history{[]fault{{Kind: "err-at-write", N: n, Listing: "big"}}})
			if n <= 12 {
				hs = append(hs, history{[]fault{{Kind: "kill-at-write", N: n, Listing: "small"}}})
				hs = append(hs, history{[]fault{{Kind: "err-at-write", N: n, Listing: "small"}}})
			}
		}
		// the file system refuses to let a file grow beyond L bytes (RLIMIT_FSIZE stands for a full disk or a quota): it hits
		// whoever writes the cache file, the profiler or the disassembler child
		if _, err := exec.LookPath("prlimit"); err == nil {
			for _, lst := range []struct {
				name string
				size int
			}{{"small", len(L)}, {"big", len(LB)}} {
				lim := map[int]bool{0: true, 1: true, 64: true, 65: true, 66: true, 100: true, lst.size - 40: true, lst.size: true, lst.size + 30: true, lst.size + 64: true, lst.size + 65: true, lst.size + 66: true}
				for p := 4096; p < lst.size+4096; p += 4096 {
					lim[p-1], lim[p], lim[p+1], lim[p+65] = true, true, true, true
				}
				for l := range lim {
					if l >= 0 {
						hs = append(hs, history{[]fault{{Kind: "fsize-limit", P: l, Listing: lst.name}}})
					}
				}
			}
		} else {
			ctx.Capped("prlimit not available: file-size-limit faults skipped")
		}
		// the file system that holds the cache is full after P pages (a private mount namespace with a tmpfs of that size
		// over the cache directory; unlike the size limit this hits only files in that directory, so whatever the profiler
		// writes elsewhere - TMPDIR - succeeds); the file system is then enlarged and a normal run follows
		if c17CanMount() {
			for _, lst := range []struct {
				name string
				size int
			}{{"small", len(L)}, {"big", len(LB)}} {
				for pg := 1; pg <= lst.size/4096+2; pg++ {
					hs = append(hs, history{[]fault{{Kind: "disk-full", P: pg, Listing: lst.name}}})
					if otherTmp != "" {
						hs = append(hs, history{[]fault{{Kind: "disk-full", P: pg, Listing: lst.name, OtherTmp: true}}})
					}
				}
			}
		} else {
			ctx.Capped("no private mount namespace with a tmpfs available: full-disk faults skipped")
		}
		// the size-limit and full-disk faults again with a disassembler that ignores its own write errors
		for _, h := range append([]history{}, hs...) {
			if f := h.Faults[0]; f.Kind == "fsize-limit" || f.Kind == "disk-full" {
				f.IgnWErr = true
				hs = append(hs, history{[]fault{f}})
			}
		}
		// environment: the same faults with TMPDIR on another file system than the cache
		if otherTmp != "" {
			for _, h := range append([]history{}, hs...) {
				switch f := h.Faults[0]; f.Kind {
				case "fsize-limit", "kill-at-write", "err-at-write":
					f.OtherTmp = true
					hs = append(hs, history{[]fault{f}})
				case "kill-profiler-after":
					if f.P%4096 == 0 || f.Listing == "small" {
						f.OtherTmp = true
						hs = append(hs, history{[]fault{f}})
					}
				}
			}
		}
		// depth 2: a second fault before the normal run
		var lineCuts []int
		off = 0
		for _, ln := range strings.SplitAfter(L, "\n") {
			lineCuts = append(lineCuts, off)
			off += len(ln)
		}
		step := 4
		if tier == "thorough" {
			step = 1
		}
		for i := 0; i < len(lineCuts); i += step {
			for j := 0; j < len(lineCuts); j += step {
				hs = append(hs, history{[]fault{{Kind: "cut-exit", P: lineCuts[i], Listing: "small"}, {Kind: "cut-kill", P: lineCuts[j], Listing: "small"}}})
			}
			hs = append(hs, history{[]fault{{Kind: "cut-exit", P: lineCuts[i], Listing: "small"}, {Kind: "tool-missing", Listing: "small"}}})
			hs = append(hs, history{[]fault{{Kind: "tool-missing", Listing: "small"}, {Kind: "cut-exit", P: lineCuts[i], Listing: "small"}}})
		}
	}
	var haveStrace error
	if !straceWorks() {
		haveStrace = fmt.Errorf("strace cannot trace here")
	}
	var runs, reused, faultsHit, straceUnavailable int64
	var kindMu sync.Mutex
	failedByKind, runsByKind := map[string]int{}, map[string]int{}
	parallelFor(len(hs), func(i int) {
		h := hs[i]
		bin, cache := newBin()
		defer os.Remove(cache)
		defer os.Remove(bin)
		lstOf := func(f fault) string {
			if f.Listing == "big" {
				return big
			}
			return small
		}
		var last string
		var tmpEnv []string
		if h.Faults[0].OtherTmp && otherTmp != "" {
			tmpEnv = []string{"TMPDIR=" + otherTmp}
		}
		faultEnv := tmpEnv
		if h.Faults[0].IgnWErr {
			faultEnv = append(append([]string{}, tmpEnv...), "FAKE_IGNORE_WERR=1")
		}
		if f := h.Faults[0]; f.Kind == "disk-full" {
			lst := lstOf(f)
			dir, _ := os.MkdirTemp(scratch, "df")
			defer os.RemoveAll(dir)
			script := fmt.Sprintf(`d=%q; o=%q
mount -t tmpfs -o size=%dk,mode=755 tmpfs "$d" || exit 97
FAKE_IGNORE_WERR=$IGNW "$@" >"$o/o1" 2>"$o/e1"; echo $? >"$o/rc1"
ls -l "$d" >"$o/ls1" 2>&1
mount -o remount,size=65536k "$d" || exit 98
"$@" >"$o/o2" 2>"$o/e2"; echo $? >"$o/rc2"
exit 0`, filepath.Dir(cache), dir, 4*f.P)
			ignw := "IGNW="
			if f.IgnWErr {
				ignw = "IGNW=1"
			}
			r := runCmd(120*time.Second, pe.env(lst, append(append([]string{}, tmpEnv...), ignw)), scratch, "unshare", "-m", "sh", "-c", script, "sh", pe.profiler, "-format", "config", bin)
			atomic.AddInt64(&runs, 2)
			rd := func(n string) string { b, _ := os.ReadFile(filepath.Join(dir, n)); return string(b) }
			rc1, rc2 := strings.TrimSpace(rd("rc1")), strings.TrimSpace(rd("rc2"))
			if r.Exit != 0 || rc1 == "" || rc2 == "" {
				ctx.Capped(fmt.Sprintf("a full-disk history could not be run (exit %d, %s)", r.Exit, clip(r.Stderr, 200)))
				return
			}
			kindMu.Lock()
			runsByKind[f.Kind]++
			if rc1 != "0" {
				failedByKind[f.Kind]++
			}
			kindMu.Unlock()
			if rc1 != "0" {
				atomic.AddInt64(&faultsHit, 1)
			}
			if rc1 == "0" && rd("o1") != cold[lst] {
				ctx.Violation("C17:disk-full:run", fmt.Sprintf("with the cache directory on a file system of %d pages the profiler exited 0 with a profile that is not the cold-cache one:\n--- got\n%s--- cold\n%s", f.P, clip(rd("o1"), 400), clip(cold[lst], 400)), h)
			}
			if rc2 == "0" && rd("o2") != cold[lst] {
				ctx.Violation("C17:disk-full", fmt.Sprintf("after a run (exit %s) with the cache directory on a full file system (%d pages, TMPDIR elsewhere: %v; directory afterwards: %s) the next normal run succeeded with a different profile than a cold-cache run (reused cache: %v):\n--- got\n%s--- cold\n%s", rc1, f.P, f.OtherTmp, clip(rd("ls1"), 200), strings.Contains(rd("e2"), "Using cached objdump"), clip(rd("o2"), 400), clip(cold[lst], 400)), h)
			}
			return
		}
		for _, f := range h.Faults {
			last = lstOf(f)
			var r cmdResult
			switch f.Kind {
			case "cut-exit":
				r = runProf(bin, last, []string{fmt.Sprintf("FAKE_CUT=%d", f.P), "FAKE_EXIT=1"})
			case "cut-kill":
				r = runProf(bin, last, []string{fmt.Sprintf("FAKE_CUT=%d", f.P), "FAKE_KILL=self"})
			case "kill-profiler-after":
				r = runProf(bin, last, append([]string{fmt.Sprintf("FAKE_CUT=%d", f.P), "FAKE_KILL=parent"}, tmpEnv...))
			case "fsize-limit":
				r = runProf(bin, last, faultEnv, "prlimit", fmt.Sprintf("--fsize=%d", f.P))
			case "tool-missing":
				r = runCmd(60*time.Second, []string{"PATH=/nonexistent-dir", "HOME=" + filepath.Join(scratch, "home"), "USER=root"}, scratch, pe.profiler, "-format", "config", bin)
			case "kill-at-write", "err-at-write":
				if haveStrace != nil {
					atomic.AddInt64(&straceUnavailable, 1)
					continue
				}
				inj := fmt.Sprintf("inject=write:signal=SIGKILL:when=%d", f.N)
				if f.Kind == "err-at-write" {
					inj = fmt.Sprintf("inject=write:error=ENOSPC:when=%d", f.N)
				}
				// the N-th write(2) of every thread of the profiler and of every process it starts is a fault point (strace counts
				// per tracee): log lines, the blocks of the cache file - written under a temporary name by the goroutine that
				// copies the disassembler's output -, the emitted profile, and the disassembler's own writes into the pipe
				r = runProf(bin, last, tmpEnv, "strace", "-f", "-o", "/dev/null", "-e", "trace=write", "-e", inj)
			}
			atomic.AddInt64(&runs, 1)
			if r.Exit != 0 {
				atomic.AddInt64(&faultsHit, 1)
				kindMu.Lock()
				failedByKind[f.Kind]++
				kindMu.Unlock()
			}
			kindMu.Lock()
			runsByKind[f.Kind]++
			kindMu.Unlock()
		}
		final := runProf(bin, last, tmpEnv)
		atomic.AddInt64(&runs, 1)
		usedCache := strings.Contains(final.Stderr, "Using cached objdump")
		if usedCache {
			atomic.AddInt64(&reused, 1)
		}
		key := "C17:" + h.Faults[0].Kind
		if len(h.Faults) > 1 {
			key += "+" + h.Faults[1].Kind
		}
		if final.Exit == 0 && final.Stdout != cold[last] {
			cb, _ := os.ReadFile(cache)
			ctx.Violation(key, fmt.Sprintf("after %+v the next normal run succeeded with a different profile than a cold-cache run (reused cache: %v; cache file has %d bytes, complete one %d):\n--- got\n%s--- cold\n%s", h.Faults, usedCache, len(cb), len(coldCache[last]), clip(final.Stdout, 400), clip(cold[last], 400)), h)
		}
		if usedCache {
			cb, _ := os.ReadFile(cache)
			if string(cb) != coldCache[last] {
				ctx.Violation(key+":incomplete-cache-reused", fmt.Sprintf("after %+v the next run reused a cache file of %d bytes although the complete disassembly has %d", h.Faults, len(cb), len(coldCache[last])), h)
			}
		}
		if i%211 == 0 {
			ctx.Sample(map[string]any{"history": h, "final_exit": final.Exit, "final_reused_cache": usedCache})
		}
	})
	// Machine crashes (power loss, kernel panic) while or after the cache is written: what is on the disk afterwards is not what
	// the process wrote but what had been made durable. See c17CrashStates.
	if (replay == "" || replayCrash != nil) && haveStrace == nil {
		cp, st, cr := c17CrashStates(ctx, scratch, map[string]string{"small": small, "big": big}, cold, newBin, runProf, replayCrash)
		ctx.Cov["machine_crash:crash_points"] = cp
		ctx.Cov["machine_crash:distinct_disk_states"] = st
		ctx.Cov["machine_crash:recovery_runs"] = cr
		atomic.AddInt64(&runs, cr)
	}
	// "for the exact binary": the file at the same path is replaced by a different binary (its disassembly is the other
	// listing); the next run must profile the new one, also when hashing it hits a read error
	{
		type repl struct {
			Kind      string `json:"kind"`       // other-arch | patched-after-linking
			HashFault int    `json:"hash_fault"` // 0: none; N: the N-th read(2) of the binary fails with EIO in the final run
			ToolFault string `json:"tool_fault"` // "": none; the disassembler of the run after the replacement fails: tool-missing | exit1-after-all | exit1-after-half | killed-after-half | exit1-after-nothing
			OldMtime  bool   `json:"old_mtime"`  // the new binary carries a modification time BEFORE the cache file's (cp -p, tar, reproducible builds)
		}
		var rs []repl
		for _, k := range []string{"other-arch", "patched-after-linking"} {
			rs = append(rs, repl{k, 0, "", false}, repl{k, 0, "", true}, repl{k, 0, "exit1-after-all", true}, repl{k, 0, "tool-missing", true})
			if haveStrace == nil {
				for n := 1; n <= 3; n++ {
					rs = append(rs, repl{k, n, "", false})
				}
			}
			// the stale cache of the old binary is there and the disassembler fails for the new one
			for _, tf := range []string{"tool-missing", "exit1-after-all", "exit1-after-half", "killed-after-half", "exit1-after-nothing"} {
				rs = append(rs, repl{k, 0, tf, false})
			}
		}
		if replay != "" {
			rs = nil
			if replayRepl != nil {
				n, _ := strconv.Atoi(replayRepl[1])
				rs = []repl{{replayRepl[0], n, replayRepl[2], replayRepl[3] == "true"}}
			}
		}
		// second listing: the small one plus two more syscall sites
		small2 := filepath.Join(scratch, "small2.lst")
		L2 := L + "TEXT main.more(SB) /src/main.go\n  main.go:900\t0x1\t90\tMOVQ $0x65, AX\n  main.go:901\t0x2\t0f05\tSYSCALL\n  main.go:902\t0x1\t90\tMOVQ $0xa5, AX\n  main.go:903\t0x2\t0f05\tSYSCALL\n"
		os.WriteFile(small2, []byte(L2), 0o644)
		binC, cacheC := newBin()
		rc := runProf(binC, small2, nil)
		cold2 := rc.Stdout
		os.Remove(cacheC)
		os.Remove(binC)
		if rc.Exit != 0 || !strings.Contains(cold2, "ptrace") || cold2 == cold[small] {
			ctx.Capped("second listing did not yield a larger cold profile")
		} else {
			parallelFor(len(rs), func(i int) {
				r := rs[i]
				bin, cache := newBin()
				defer os.Remove(cache)
				defer os.Remove(bin)
				r1 := runProf(bin, small, nil)
				atomic.AddInt64(&runs, 1)
				if r1.Exit != 0 {
					return
				}
				// replace the binary at the same path
				os.Remove(bin)
				place := func(dst string) {
					switch r.Kind {
					case "other-arch":
						copyFile(pe.hello["386"], dst)
					case "patched-after-linking":
						b, _ := os.ReadFile(pe.hello["amd64"])
						off := len(b) / 3 // somewhere in .text: the Go build-id note (near the start of the file) stays identical
						for k := 0; k < 8; k++ {
							b[off+k] ^= 0xff
						}
						os.WriteFile(dst, b, 0o755)
					}
				}
				place(bin)
				if r.OldMtime {
					past := time.Now().Add(-2 * time.Hour)
					os.Chtimes(bin, past, past)
				}
				// what a cold-cache run prints for exactly this new binary (at a fresh path)
				binN, cacheN := newBin()
				os.Remove(binN)
				place(binN)
				rn := runProf(binN, small2, nil)
				os.Remove(cacheN)
				os.Remove(binN)
				if rn.Exit != 0 {
					return
				}
				cold2 := rn.Stdout
				var wrapper []string
				if r.HashFault > 0 {
					wrapper = []string{"strace", "-f", "-o", "/dev/null", "-P", bin, "-e", "trace=read", "-e", fmt.Sprintf("inject=read:error=EIO:when=%d", r.HashFault)}
				}
				var r2 cmdResult
				switch r.ToolFault {
				case "":
					r2 = runProf(bin, small2, nil, wrapper...)
				case "tool-missing":
					r2 = runCmd(60*time.Second, []string{"PATH=/nonexistent-dir", "HOME=" + filepath.Join(scratch, "home"), "USER=root"}, scratch, pe.profiler, "-format", "config", bin)
				case "exit1-after-all":
					r2 = runProf(bin, small2, []string{fmt.Sprintf("FAKE_CUT=%d", len(L2)), "FAKE_EXIT=1"})
				case "exit1-after-half":
					r2 = runProf(bin, small2, []string{fmt.Sprintf("FAKE_CUT=%d", len(L2)/2), "FAKE_EXIT=1"})
				case "killed-after-half":
					r2 = runProf(bin, small2, []string{fmt.Sprintf("FAKE_CUT=%d", len(L2)/2), "FAKE_KILL=self"})
				case "exit1-after-nothing":
					r2 = runProf(bin, small2, []string{"FAKE_CUT=0", "FAKE_EXIT=1"})
				}
				atomic.AddInt64(&runs, 1)
				if r.ToolFault != "" {
					// and the normal run after the failed one
					r3 := runProf(bin, small2, nil)
					atomic.AddInt64(&runs, 1)
					if r3.Exit == 0 && r3.Stdout != cold2 {
						ctx.Violation("C17:binary-replaced+"+r.ToolFault+":next-run", fmt.Sprintf("binary replaced (%s), disassembler failure (%s), then a normal run: it did not profile the new binary:\n--- got\n%s--- cold profile of the new binary\n%s", r.Kind, r.ToolFault, clip(r3.Stdout, 400), clip(cold2, 400)), r)
					}
				}
				if r2.Exit == 0 && r2.Stdout != cold2 {
					ctx.Violation("C17:binary-replaced:"+r.Kind+":"+r.ToolFault, fmt.Sprintf("the binary at the same path was replaced (%s, hash read fault at read #%d, disassembler fault %q) but the next run exited 0 without profiling the new binary (reused cache: %v):\n--- got\n%s--- cold profile of the new binary\n%s", r.Kind, r.HashFault, r.ToolFault, strings.Contains(r2.Stderr, "Using cached objdump"), clip(r2.Stdout, 400), clip(cold2, 400)), r)
				}
			})
		}
	}
	// Two runs on the same binary that overlap in time. Run A is paused when its disassembler has printed pA bytes (the blocks
	// read so far are in A's unfinished cache file); run B then starts on the same binary and fails in one of the usual ways,
	// is killed, or completes; A continues to its end. Schedules: pA x B's behaviour. Afterwards a normal run.
	{
		type overlap struct {
			Overlap bool   `json:"overlap"`
			PauseAt int    `json:"a_paused_after_bytes"`
			BKind   string `json:"b_kind"` // complete | cut-exit | kill-profiler-after
			BP      int    `json:"b_p"`
		}
		var os_ []overlap
		for _, pa := range []int{0, 4096, 8192, 12288, 16384, len(LB)} {
			os_ = append(os_, overlap{true, pa, "complete", 0})
			for _, bp := range []int{0, 100, 4096, 8192, len(LB)} {
				os_ = append(os_, overlap{true, pa, "cut-exit", bp}, overlap{true, pa, "kill-profiler-after", bp})
			}
		}
		if replay != "" {
			os_ = nil
			var g struct {
				Case overlap `json:"case"`
			}
			if readJSON(replay, &g) == nil && g.Case.Overlap {
				os_ = []overlap{g.Case}
			}
		}
		var overlaps int64
		parallelFor(len(os_), func(i int) {
			o := os_[i]
			bin, cache := newBin()
			defer os.Remove(cache)
			defer os.Remove(bin)
			pauseFile := filepath.Join(scratch, fmt.Sprintf("pause-%d-%d", os.Getpid(), atomic.AddInt64(&seq, 1)))
			defer os.Remove(pauseFile)
			defer os.Remove(pauseFile + ".reached")
			aDone := make(chan cmdResult, 1)
			go func() {
				aDone <- runProf(bin, big, []string{fmt.Sprintf("FAKE_PAUSE_AT=%d", o.PauseAt), "FAKE_PAUSE_FILE=" + pauseFile})
			}()
			// wait until A's disassembler has printed its first part, then give the profiler a moment to take it in
			for k := 0; k < 500; k++ {
				if _, err := os.Stat(pauseFile + ".reached"); err == nil {
					break
				}
				time.Sleep(10 * time.Millisecond)
			}
			time.Sleep(60 * time.Millisecond)
			switch o.BKind {
			case "complete":
				runProf(bin, big, nil)
			case "cut-exit":
				runProf(bin, big, []string{fmt.Sprintf("FAKE_CUT=%d", o.BP), "FAKE_EXIT=1"})
			case "kill-profiler-after":
				runProf(bin, big, []string{fmt.Sprintf("FAKE_CUT=%d", o.BP), "FAKE_KILL=parent"})
			}
			os.WriteFile(pauseFile, nil, 0o644)
			ra := <-aDone
			atomic.AddInt64(&runs, 2)
			atomic.AddInt64(&overlaps, 1)
			if ra.Exit == 0 && ra.Stdout != cold[big] {
				ctx.Violation("C17:overlap:run-A:"+o.BKind, fmt.Sprintf("run A (paused after %d bytes while run B [%s at %d] worked on the same binary) exited 0 with a profile different from the cold one:\n%s", o.PauseAt, o.BKind, o.BP, clip(ra.Stdout, 300)), o)
			}
			final := runProf(bin, big, nil)
			atomic.AddInt64(&runs, 1)
			if final.Exit == 0 && final.Stdout != cold[big] {
				cb, _ := os.ReadFile(cache)
				ctx.Violation("C17:overlap:next-run:"+o.BKind, fmt.Sprintf("after run A (paused after %d bytes) overlapped with run B [%s at %d] on the same binary, the next normal run printed a profile different from the cold one (reused cache: %v, cache file %d bytes, complete one %d):\n%s", o.PauseAt, o.BKind, o.BP, strings.Contains(final.Stderr, "Using cached objdump"), len(cb), len(coldCache[big]), clip(final.Stdout, 300)), o)
			}
		})
		ctx.Cov["overlapping_run_schedules"] = overlaps
		// The same with a history: the cache holds the complete disassembly of an OLDER build of the binary (the file was
		// rebuilt in place since); run A on the new build is paused inside its disassembler and then fails or is killed; run B,
		// an ordinary run, is started while A is paused and may have to wait for it. Whatever B prints with status 0 has to be
		// the new build's profile.
		type stale struct {
			Stale   bool   `json:"stale_cache_then_overlap"`
			PauseAt int    `json:"a_paused_after_bytes"`
			AEnd    string `json:"a_end"` // complete | exit1 | killed | profiler-killed
		}
		var sts []stale
		for _, pa := range []int{0, 8192, len(LB)} {
			for _, ae := range []string{"complete", "exit1", "killed", "profiler-killed"} {
				sts = append(sts, stale{true, pa, ae})
			}
		}
		if replay != "" {
			sts = nil
			var g struct {
				Case stale `json:"case"`
			}
			if readJSON(replay, &g) == nil && g.Case.Stale {
				sts = []stale{g.Case}
			}
		}
		big2 := filepath.Join(scratch, "big2.lst")
		os.WriteFile(big2, []byte(LB+"TEXT main.more(SB) /src/main.go\n  main.go:900\t0x1\t90\tMOVQ $0x65, AX\n  main.go:901\t0x2\t0f05\tSYSCALL\n  main.go:902\t0x1\t90\tMOVQ $0xa5, AX\n  main.go:903\t0x2\t0f05\tSYSCALL\n"), 0o644)
		patched := func(dst string) {
			b, _ := os.ReadFile(pe.hello["amd64"])
			off := len(b) / 3
			for k := 0; k < 8; k++ {
				b[off+k] ^= 0xff
			}
			os.WriteFile(dst, b, 0o755)
		}
		// the new build's cold profile
		binN, cacheN := newBin()
		os.Remove(binN)
		patched(binN)
		rn := runProf(binN, big2, nil)
		os.Remove(cacheN)
		os.Remove(binN)
		var staleRuns int64
		if rn.Exit == 0 && rn.Stdout != cold[big] {
			cold2 := rn.Stdout
			parallelFor(len(sts), func(i int) {
				st := sts[i]
				bin, cache := newBin()
				defer os.Remove(cache)
				defer os.Remove(bin)
				if r1 := runProf(bin, big, nil); r1.Exit != 0 {
					return
				}
				os.Remove(bin)
				patched(bin)
				pauseFile := filepath.Join(scratch, fmt.Sprintf("pause-%d-%d", os.Getpid(), atomic.AddInt64(&seq, 1)))
				defer os.Remove(pauseFile)
				defer os.Remove(pauseFile + ".reached")
				envA := []string{fmt.Sprintf("FAKE_PAUSE_AT=%d", st.PauseAt), "FAKE_PAUSE_FILE=" + pauseFile}
				switch st.AEnd {
				case "exit1":
					envA = append(envA, "FAKE_EXIT=1")
				case "killed":
					envA = append(envA, "FAKE_KILL=self")
				case "profiler-killed":
					envA = append(envA, "FAKE_KILL=parent")
				}
				aDone := make(chan cmdResult, 1)
				go func() { aDone <- runProf(bin, big2, envA) }()
				for k := 0; k < 500; k++ {
					if _, err := os.Stat(pauseFile + ".reached"); err == nil {
						break
					}
					time.Sleep(10 * time.Millisecond)
				}
				time.Sleep(60 * time.Millisecond)
				bDone := make(chan cmdResult, 1)
				go func() { bDone <- runProf(bin, big2, nil) }()
				// B either finishes on its own or waits for A: give it a moment, then let A go on
				var rb cmdResult
				gotB := false
				select {
				case rb = <-bDone:
					gotB = true
				case <-time.After(400 * time.Millisecond):
				}
				os.WriteFile(pauseFile, nil, 0o644)
				ra := <-aDone
				if !gotB {
					rb = <-bDone
				}
				atomic.AddInt64(&runs, 3)
				atomic.AddInt64(&staleRuns, 1)
				if ra.Exit == 0 && ra.Stdout != cold2 {
					ctx.Violation("C17:stale+overlap:run-A:"+st.AEnd, fmt.Sprintf("old build cached, binary rebuilt, run A (paused after %d bytes, end: %s) exited 0 with a profile that is not the new build's:\n%s", st.PauseAt, st.AEnd, clip(ra.Stdout, 300)), st)
				}
				if rb.Exit == 0 && rb.Stdout != cold2 {
					ctx.Violation("C17:stale+overlap:run-B:"+st.AEnd, fmt.Sprintf("old build cached, binary rebuilt, run A paused after %d bytes (end: %s); the ordinary run B started meanwhile exited 0 with a profile that is not the new build's (reused cache: %v):\n%s", st.PauseAt, st.AEnd, strings.Contains(rb.Stderr, "Using cached objdump"), clip(rb.Stdout, 300)), st)
				}
				final := runProf(bin, big2, nil)
				atomic.AddInt64(&runs, 1)
				if final.Exit == 0 && final.Stdout != cold2 {
					ctx.Violation("C17:stale+overlap:next-run:"+st.AEnd, fmt.Sprintf("old build cached, binary rebuilt, overlapping runs (A paused after %d bytes, end: %s), then a normal run: not the new build's profile:\n%s", st.PauseAt, st.AEnd, clip(final.Stdout, 300)), st)
				}
			})
		} else if replay == "" {
			ctx.Capped("stale-cache overlap: the second listing did not yield a different cold profile")
		}
		ctx.Cov["overlapping_run_schedules_with_a_stale_cache_of_an_older_build"] = staleRuns
	}
	ctx.Cov["evaluations"] = runs
	ctx.Cov["distinct_nontrivial"] = len(hs)
	ctx.Cov["histories"] = len(hs)
	ctx.Cov["profiler_runs"] = runs
	ctx.Cov["fault_runs_that_made_the_profiler_fail"] = faultsHit
	ctx.Cov["fault_runs_by_kind"] = runsByKind
	ctx.Cov["fault_runs_that_made_the_profiler_fail_by_kind"] = failedByKind
	ctx.Cov["final_runs_that_reused_the_cache"] = reused
	if straceUnavailable > 0 {
		ctx.Capped("strace not available: write-level crash points skipped")
	}
	ctx.Cov["rule"] = "histories run1(fault)[; run2(fault')]; run(normal) on the real profiler binary with a fake `go` tool: disassembler prints the first p bytes of the listing and exits 1 or is killed (quick: every line boundary, every byte of the first two lines and of the execve site, around every 4096-byte flush boundary of a 20 kB listing; thorough: every byte), tool missing from PATH, the profiler itself killed with SIGKILL after the disassembler produced p bytes (every 1024 bytes of a 20 kB listing), SIGKILL or ENOSPC injected by strace at the N-th write(2) of every thread of the profiler and of its children (N=1..18, counted per thread: log lines, every block of the cache file, the emitted profile, the disassembler's writes), a file size limit L (RLIMIT_FSIZE, standing for a full disk; L around the hash line, around every 4096-byte boundary and around the complete size) that hits whoever writes the cache file, the file system holding the cache directory full after P pages for every P up to the listing's size (private mount namespace, tmpfs of that size over the cache directory, enlarged before the normal run), the size limits and full-disk runs again with a disassembler that ignores its own write errors and exits 0 (as `go tool objdump` does; these faults cannot hit the pipe it writes to on the unchanged tree), the write faults, size limits and full-disk runs again with TMPDIR on another file system than the cache directory (tmpfs), and depth-2 fault sequences at line granularity; oracle: the final normal run prints exactly the cold-cache profile or exits non-zero, and a reused cache file equals the complete one; replacement histories: the binary at the same path is replaced by another one (other architecture; same file with bytes of .text flipped, i.e. identical Go build id; also with a modification time two hours before the cache file's), with and without an EIO injected at the N-th read while hashing, and with the disassembler failing for the new binary while the old binary's complete cache file is still there (tool missing; exit 1 after all, half or none of the output; killed): a run that exits 0 must print the new binary's cold profile, and so must the normal run after it; overlapping runs: run A on a binary is paused after its disassembler printed pA bytes (6 values), run B on the same binary then completes, fails after q bytes or is killed after q bytes (5 values), A continues, then a normal run - A's own profile and the next run's must be the cold profile or an error; the same with the cache holding an older build's complete disassembly, A failing / being killed after the pause and an ordinary run B started while A is paused (B, too, must print the new build's profile or fail); distinct_nontrivial = histories"
	ctx.Assumptions = []string{"the fake go tool stands for any disassembler failure; the cache path is <home>/.seccomp-profiler/<base>-<sha256(abs)[:10]> as the profiler logs it", "strace injection realises crashes at write granularity"}
	if replay != "" {
		return finishReplay(ctx)
	}
	return ctx.Finish()
}

// c17OtherFsTmp returns a fresh directory on a file system other than the one holding the profiler's cache, or "".
func c17OtherFsTmp(home string) string {
	var a, b syscall.Stat_t
	if syscall.Stat(home, &a) != nil {
		return ""
	}
	for _, base := range []string{"/dev/shm", "/run", "/var/tmp"} {
		if syscall.Stat(base, &b) != nil || a.Dev == b.Dev {
			continue
		}
		if d, err := os.MkdirTemp(base, "c17tmp"); err == nil {
			return d
		}
	}
	return ""
}

var c17MountOnce sync.Once
var c17MountOK bool

// c17CanMount reports whether a private mount namespace with a tmpfs can be set up here.
func c17CanMount() bool {
	c17MountOnce.Do(func() {
		d, err := os.MkdirTemp("", "c17mnt")
		if err != nil {
			return
		}
		defer os.RemoveAll(d)
		r := runCmd(20*time.Second, os.Environ(), d, "unshare", "-m", "sh", "-c", fmt.Sprintf("mount -t tmpfs -o size=4k tmpfs %q && mount -o remount,size=64k %q", d, d))
		c17MountOK = r.Exit == 0 && !r.TimedOut
	})
	return c17MountOK
}
