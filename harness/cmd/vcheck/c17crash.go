package main

import (
	"fmt"
	"os"
	"path/filepath"
	"regexp"
	"sort"
	"strconv"
	"strings"
	"sync/atomic"

	"verif/harness/evid"
)

// Machine-crash states of the cache-writing run.
//
// The process-level faults of C17 (kill, write error, size limit) leave on disk what the process had written. After a power
// loss or kernel panic the disk holds only what was made durable. The real run is traced (strace -y: write, fsync, fdatasync,
// rename* with the file names behind the descriptors); from the trace the operations on the file that becomes the cache are
// taken, and for every crash point (after each such operation) every disk state the following persistence model allows is
// materialised and handed to a normal run of the real profiler:
//   - bytes written to a file before an fsync/fdatasync of that file are on disk once the call has returned;
//   - bytes written after the last completed sync may be on disk as any prefix (at write-call and 512-byte granularity);
//   - a completed rename may be on disk although data of the renamed file is not (XFS, ext4 data=writeback; ext4's ordered
//     mode only narrows this window); it may also not be on disk yet - then the cache name holds what it held before.
// The states in which the cache name refers to the new file are the interesting ones: cache content = prefix of length L.
// The state "name not persisted" (no cache, a temporary file with a prefix next to it) is run for every write boundary too.
// On a tree that syncs the file before renaming it the first family collapses to the complete file; the enumeration says so
// in its counters (distinct_disk_states) instead of assuming it.

type c17CrashCase struct {
	MachineCrash bool   `json:"machine_crash"`
	Listing      string `json:"listing"`
	Persisted    int    `json:"persisted_bytes_of_the_cache_file"`
	NameOnDisk   bool   `json:"rename_persisted"`
}

var (
	reTraceWrite  = regexp.MustCompile(`^\d+\s+p?write(?:64)?\(\d+<([^>]*)>.*\)\s+= (\d+)$`)
	reTraceSync   = regexp.MustCompile(`^\d+\s+f(?:data)?sync\(\d+<([^>]*)>\)\s+= 0$`)
	reTraceRename = regexp.MustCompile(`^\d+\s+rename(?:at2?)?\((.*)\)\s+= 0$`)
	reQuoted      = regexp.MustCompile(`"((?:[^"\\]|\\.)*)"`)
)

type c17TraceEv struct {
	kind string // write | sync | rename
	file string
	n    int
	to   string
}

var (
	reUnfinished = regexp.MustCompile(`^(\d+)\s+(\w+)\((.*) <unfinished \.\.\.>$`)
	reResumed    = regexp.MustCompile(`^(\d+)\s+<\.\.\. (\w+) resumed>(.*)$`)
)

func c17ParseTrace(text, cacheDir string) (evs []c17TraceEv) {
	// with -f a call of one thread may be printed in two pieces around lines of other threads: join them at the point of
	// completion (a write counts once it has returned, a sync once it has returned)
	pending := map[string]string{}
	var lines []string
	for _, l := range strings.Split(text, "\n") {
		if m := reUnfinished.FindStringSubmatch(l); m != nil {
			pending[m[1]] = m[1] + " " + m[2] + "(" + m[3]
			continue
		}
		if m := reResumed.FindStringSubmatch(l); m != nil {
			if head, ok := pending[m[1]]; ok {
				delete(pending, m[1])
				lines = append(lines, head+m[3])
			}
			continue
		}
		lines = append(lines, l)
	}
	for _, l := range lines {
		if m := reTraceWrite.FindStringSubmatch(l); m != nil {
			if filepath.Dir(m[1]) == cacheDir {
				n, _ := strconv.Atoi(m[2])
				evs = append(evs, c17TraceEv{kind: "write", file: m[1], n: n})
			}
		} else if m := reTraceSync.FindStringSubmatch(l); m != nil {
			if filepath.Dir(m[1]) == cacheDir {
				evs = append(evs, c17TraceEv{kind: "sync", file: m[1]})
			}
		} else if m := reTraceRename.FindStringSubmatch(l); m != nil {
			q := reQuoted.FindAllStringSubmatch(m[1], -1)
			if len(q) == 2 && filepath.Dir(q[1][1]) == cacheDir {
				evs = append(evs, c17TraceEv{kind: "rename", file: q[0][1], to: q[1][1]})
			}
		}
	}
	return
}

func c17CrashStates(ctx *evid.Ctx, scratch string, listings map[string]string, cold map[string]string, newBin func() (string, string),
	runProf func(bin, listing string, extra []string, wrapper ...string) cmdResult, only *c17CrashCase) (crashPoints, states, recoveries int64) {
	names := []string{"small", "big", "huge"}
	for _, name := range names {
		if only != nil && only.Listing != name {
			continue
		}
		lst := listings[name]
		if name == "huge" {
			// a listing that is written in many pieces: only used here, so its cold profile is taken first
			lst = filepath.Join(scratch, "huge.lst")
			os.WriteFile(lst, []byte(c17Listing(300000)), 0o644)
			b0, c0 := newBin()
			r0 := runProf(b0, lst, nil)
			os.Remove(c0)
			os.Remove(b0)
			if r0.Exit != 0 || !strings.Contains(r0.Stdout, "execve") {
				ctx.Capped("machine-crash phase: no cold profile for the large listing")
				continue
			}
			cold[lst] = r0.Stdout
		}
		bin, cache := newBin()
		tracePath := filepath.Join(scratch, "crash-trace-"+name+".txt")
		r := runProf(bin, lst, nil, "strace", "-f", "-y", "-s", "0", "-o", tracePath, "-e", "trace=write,pwrite64,fsync,fdatasync,rename,renameat,renameat2")
		full, _ := os.ReadFile(cache)
		tb, _ := os.ReadFile(tracePath)
		os.Remove(cache)
		os.Remove(bin)
		os.Remove(tracePath)
		if r.Exit != 0 || r.Stdout != cold[lst] || len(full) == 0 {
			ctx.Capped("machine-crash phase: the traced cache-writing run did not complete as a normal run does")
			continue
		}
		evs := c17ParseTrace(string(tb), filepath.Dir(cache))
		// the file that becomes the cache: the source of the rename onto the cache name, or the cache name itself
		src, renameAt := cache, -1
		for i, e := range evs {
			if e.kind == "rename" && e.to == cache {
				src, renameAt = e.file, i
			}
		}
		// operations on that file (under its temporary name before the rename, under the cache name after it)
		type step struct {
			written, durable int
			named            bool
		}
		var steps []step
		var bounds []int
		w, d := 0, 0
		for i, e := range evs {
			mine := e.file == src && (renameAt < 0 || i <= renameAt) || e.file == cache && i > renameAt
			if !mine {
				continue
			}
			switch e.kind {
			case "write":
				w += e.n
				bounds = append(bounds, w)
			case "sync":
				d = w
			}
			steps = append(steps, step{w, d, renameAt < 0 || i >= renameAt})
		}
		if w != len(full) {
			ctx.Capped(fmt.Sprintf("machine-crash phase: the trace accounts for %d bytes of the %d-byte cache file (%s listing); phase skipped", w, len(full), name))
			continue
		}
		// disk states per crash point
		type state struct {
			L     int
			named bool
		}
		set := map[state]bool{}
		for _, s := range steps {
			atomic.AddInt64(&crashPoints, 1)
			if s.named {
				set[state{s.durable, true}], set[state{s.written, true}] = true, true
				for _, b := range bounds {
					if b > s.durable && b < s.written {
						set[state{b, true}] = true
					}
				}
				for b := (s.durable/512 + 1) * 512; b < s.written; b += 512 {
					set[state{b, true}] = true
				}
				for _, b := range []int{s.durable + 1, s.durable + 64, s.durable + 65, s.durable + 66, s.written - 1} {
					if b > s.durable && b < s.written {
						set[state{b, true}] = true
					}
				}
			}
			// the name is not on disk (yet): no cache, the unfinished file lies next to it
			set[state{s.written, false}] = true
		}
		var list []state
		for st := range set {
			if only != nil && (st.L != only.Persisted || st.named != only.NameOnDisk) {
				continue
			}
			list = append(list, st)
		}
		sort.Slice(list, func(i, j int) bool {
			if list[i].named != list[j].named {
				return list[i].named
			}
			return list[i].L < list[j].L
		})
		atomic.AddInt64(&states, int64(len(list)))
		tmpSuffix := strings.TrimPrefix(filepath.Base(src), filepath.Base(cache))
		parallelFor(len(list), func(i int) {
			st := list[i]
			b2, c2 := newBin()
			defer os.Remove(b2)
			defer os.Remove(c2)
			os.MkdirAll(filepath.Dir(c2), 0o755)
			left := ""
			if st.named {
				os.WriteFile(c2, full[:st.L], 0o644)
			} else if src != cache {
				left = c2 + tmpSuffix
				os.WriteFile(left, full[:st.L], 0o644)
				defer os.Remove(left)
			} else {
				return // written in place: "name not on disk" is the cold state
			}
			final := runProf(b2, lst, nil)
			atomic.AddInt64(&recoveries, 1)
			if final.Exit == 0 && final.Stdout != cold[lst] {
				cs := c17CrashCase{true, name, st.L, st.named}
				what := fmt.Sprintf("the cache name refers to a file of which %d of %d bytes are on disk", st.L, len(full))
				if !st.named {
					what = fmt.Sprintf("the rename is not on disk; an unfinished file of %d bytes lies next to the cache name", st.L)
				}
				ctx.Violation("C17:machine-crash", fmt.Sprintf("disk state after a machine crash during / after the cache-writing run (%s listing): %s (the trace shows no completed fsync of the file covering those bytes before the point of the crash); the next normal run succeeded with a different profile than a cold-cache run (reused cache: %v):\n--- got\n%s--- cold\n%s", name, what, strings.Contains(final.Stderr, "Using cached objdump"), clip(final.Stdout, 400), clip(cold[lst], 400)), cs)
			}
		})
	}
	return
}
