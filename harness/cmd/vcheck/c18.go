package main

import (
	"fmt"
	"go/ast"
	"go/parser"
	"go/token"
	"os"
	"path/filepath"
	"sort"
	"strconv"
	"strings"
	"sync/atomic"
	"time"

	yaml "gopkg.in/yaml.v2"

	seccomp "github.com/elastic/go-seccomp-bpf"

	"verif/harness/engine"
	"verif/harness/evid"
	"verif/harness/refsem"
)

func init() { register("C18", checkC18) }

// seven sites: read, write (two sites), exit_group, a number that is in no table, number 0 through the XOR idiom, and readv
// (a name that has another discovered name as a proper prefix)
var c18SiteNames = []string{"read", "write", "write", "exit_group", "", "#0", "readv"} // exit_group: a name with an underscore

const c18Sites = 7

func c18Listing(a *refsem.Arch, set int, i386 bool) (text string, found []string) {
	raw := "SYSCALL"
	if i386 {
		raw = "INT $0x80"
	}
	var b strings.Builder
	num0Name := ""
	for _, n := range a.SortedNames() {
		if v, _ := a.Number(n); v == 0 {
			num0Name = n
		}
	}
	line := 0
	ins := func(asm string) {
		line++
		fmt.Fprintf(&b, "  p.go:%d\t0x%x\t90\t%s\n", line, 0x1000+line, asm)
	}
	for s := 0; s < c18Sites; s++ {
		fmt.Fprintf(&b, "TEXT main.site%d(SB) /src/p.go\n", s)
		ins("NOPL")
		if set&(1<<s) == 0 {
			continue
		}
		switch s {
		case 4:
			ins("MOVQ $999999, AX")
			ins(raw)
		case 5:
			ins("XORL AX, AX")
			ins(raw)
			found = append(found, num0Name)
		default:
			n, _ := a.Number(c18SiteNames[s])
			ins(fmt.Sprintf("MOVQ $0x%x, AX", n))
			ins("NOPL")
			ins(raw)
			found = append(found, c18SiteNames[s])
		}
	}
	return b.String(), found
}

func joinFlag(vals []string, style int) []string {
	if len(vals) == 0 {
		return nil
	}
	switch style % 6 {
	case 0:
		return []string{strings.Join(vals, ",")}
	case 1:
		return []string{strings.Join(vals, ";")}
	case 2:
		return []string{strings.Join(vals, " , ")}
	case 3:
		return vals // repeated flag
	case 4:
		// the same name twice inside one value
		return []string{strings.Join(append(append([]string{}, vals...), vals[len(vals)-1], vals[0]), ",")}
	}
	// the same name in two occurrences of the flag
	return append(append([]string{}, vals...), vals[0])
}

type c18Run struct {
	Set    int      `json:"found_set"`
	B      []string `json:"blacklist"`
	A      []string `json:"allow"`
	Style  int      `json:"flag_style"`
	Format string   `json:"format"`
	GoArch string   `json:"goarch"`
	Debug  bool     `json:"debug"`
	Out    int      `json:"out"` // 0: stdout; 1: -out <fresh file from a template>; 2: -out <file that an earlier, longer profile was written to>
}

func checkC18(tier, replay string) int {
	ctx := evid.New("C18", tier, "exploration")
	scratch, _ := os.MkdirTemp("", "c18")
	defer os.RemoveAll(scratch)
	pe, err := newProfEnv(scratch)
	if err != nil {
		fmt.Println("harness setup failed:", err)
		return 2
	}
	defer func() {
		if m, _ := filepath.Glob(filepath.Join(pe.home, ".seccomp-profiler", fmt.Sprintf("c18-%d-*", os.Getpid()))); m != nil {
			for _, f := range m {
				os.Remove(f)
			}
		}
	}()
	archOf := map[string]*refsem.Arch{"amd64": refsem.ArchByName("x86_64"), "386": refsem.ArchByName("i386")}
	bUniverse := []string{"read", "exit_group", "bogus_syscall", "readv"}
	aUniverse := []string{"write", "rt_sigreturn", "bogus_allow", "waitpid"} // waitpid exists on i386 only; rt_sigreturn has an underscore
	subsets := func(u []string) [][]string {
		var out [][]string
		for m := 0; m < 1<<len(u); m++ {
			var s []string
			for i, x := range u {
				if m&(1<<i) != 0 {
					s = append(s, x)
				}
			}
			out = append(out, s)
		}
		return out
	}
	var runs []c18Run
	if replay != "" {
		var f struct {
			Case c18Run `json:"case"`
		}
		if err := readJSON(replay, &f); err != nil {
			fmt.Println(err)
			return 2
		}
		runs = []c18Run{f.Case}
	} else {
		n := 0
		for set := 0; set < 1<<c18Sites; set++ {
			for bi, B := range subsets(bUniverse) {
				for ai, A := range subsets(aUniverse) {
					for fi, format := range []string{"config", "code"} {
						for gi, ga := range []string{"amd64", "386"} {
							n++
							if tier == "quick" {
								// quick: all found-sets x all blacklists on amd64/config, rotating the other dimensions
								if (ai+set+bi)%8 != 0 || (gi == 1 && (set+bi)%8 != 0) || (fi == 1 && (set+ai)%3 != 0) {
									continue
								}
							}
							runs = append(runs, c18Run{Set: set, B: B, A: A, Style: n, Format: format, GoArch: ga, Debug: n%5 == 0 && format == "config", Out: (n / 7) % 3})
						}
					}
				}
			}
		}
	}
	// listings per (arch, set)
	listings := map[string]string{}
	foundOf := map[string][]string{}
	for _, ga := range []string{"amd64", "386"} {
		for set := 0; set < 1<<c18Sites; set++ {
			txt, found := c18Listing(archOf[ga], set, ga == "386")
			p := filepath.Join(scratch, fmt.Sprintf("l-%s-%d.lst", ga, set))
			os.WriteFile(p, []byte(txt), 0o644)
			listings[fmt.Sprintf("%s/%d", ga, set)] = p
			foundOf[fmt.Sprintf("%s/%d", ga, set)] = found
			// the same text without the final newline (a disassembler that does not terminate its last line)
			pn := filepath.Join(scratch, fmt.Sprintf("l-%s-%d-nonl.lst", ga, set))
			os.WriteFile(pn, []byte(strings.TrimSuffix(txt, "\n")), 0o644)
			listings[fmt.Sprintf("%s/%d/nonl", ga, set)] = pn
		}
	}
	var seq, done, nonEmpty, events int64
	parallelFor(len(runs), func(i int) {
		r := runs[i]
		a := archOf[r.GoArch]
		k := fmt.Sprintf("%s/%d", r.GoArch, r.Set)
		bin := filepath.Join(scratch, fmt.Sprintf("c18-%d-%d", os.Getpid(), atomic.AddInt64(&seq, 1)))
		if os.Link(pe.hello[r.GoArch], bin) != nil {
			copyFile(pe.hello[r.GoArch], bin)
		}
		defer os.Remove(bin)
		defer os.Remove(profilerCachePath(pe.home, bin))
		argv := []string{pe.profiler, "-format", r.Format}
		if r.Debug {
			argv = append(argv, "-d")
		}
		for _, v := range joinFlag(r.B, r.Style) {
			argv = append(argv, "-b", v)
		}
		for _, v := range joinFlag(r.A, r.Style/6) {
			argv = append(argv, "-allow", v)
		}
		outPath := ""
		if r.Out > 0 {
			outPath = filepath.Join(scratch, fmt.Sprintf("out-%d", atomic.AddInt64(&seq, 1)), "profile_linux_"+r.GoArch+".txt")
			defer os.RemoveAll(filepath.Dir(outPath))
			outArg := filepath.Join(filepath.Dir(outPath), "profile_{{.GOOS}}_{{.GOARCH}}.txt")
			if r.Out == 2 {
				// history: the same file received the profile of an earlier, more permissive invocation (everything found, nothing blacklisted)
				full := fmt.Sprintf("%s/%d", r.GoArch, 1<<c18Sites-1)
				first := runCmd(60*time.Second, pe.env(listings[full], nil), scratch, pe.profiler, "-format", r.Format, "-allow", strings.Join(aUniverse, ","), "-out", outArg, bin)
				atomic.AddInt64(&done, 1)
				if st, err := os.Stat(outPath); first.Exit != 0 || err != nil || st.Size() == 0 {
					ctx.Violation("C18:profiler-failed:first-run:"+cls0(r), fmt.Sprintf("the preparatory run (all sites, -out) exited %d: %.300s", first.Exit, first.Stderr), r)
					return
				}
				os.Remove(profilerCachePath(pe.home, bin))
			}
			argv = append(argv, "-out", outArg)
		}
		argv = append(argv, bin)
		lst := listings[k]
		if r.Style%4 == 1 {
			lst = listings[k+"/nonl"]
		}
		res := runCmd(60*time.Second, pe.env(lst, nil), scratch, argv...)
		atomic.AddInt64(&done, 1)
		if outPath != "" && res.Exit == 0 {
			b, err := os.ReadFile(outPath)
			if err != nil {
				ctx.Violation("C18:no-output-file:"+cls0(r), fmt.Sprintf("-out %s: exit 0 but %v", outPath, err), r)
				return
			}
			res.Stdout = string(b)
		}
		// expected = sort(dedup((found ∩ table) − B) ∪ (A ∩ table))
		exp := map[string]bool{}
		for _, f := range foundOf[k] {
			exp[f] = true
		}
		for _, b := range r.B {
			delete(exp, b)
		}
		for _, x := range r.A {
			if _, ok := a.Number(x); ok {
				exp[x] = true
			}
		}
		var want []string
		for n := range exp {
			want = append(want, n)
		}
		sort.Strings(want)
		cls := r.Format + ":" + r.GoArch
		if res.Exit != 0 {
			ctx.Violation("C18:profiler-failed:"+cls, fmt.Sprintf("profiler exited %d: %.400s", res.Exit, res.Stderr), r)
			return
		}
		var got []string
		var perr error
		if r.Format == "config" {
			got, perr = namesFromYAML(res.Stdout)
		} else {
			got, perr = namesFromGoCode(res.Stdout, r.GoArch)
		}
		if perr != nil {
			ctx.Violation("C18:unparsable-output:"+cls, fmt.Sprintf("cannot read the emitted profile: %v\n%s", perr, clip(res.Stdout, 600)), r)
			return
		}
		if strings.Join(got, ",") != strings.Join(want, ",") {
			kind := "wrong-set"
			sg := append([]string{}, got...)
			sort.Strings(sg)
			if strings.Join(sg, ",") == strings.Join(want, ",") {
				kind = "not-sorted"
			} else if strings.Join(dedup(sg), ",") == strings.Join(want, ",") {
				kind = "duplicates"
			}
			ctx.Violation("C18:"+kind+":"+cls, fmt.Sprintf("found %v, blacklist %v, allow %v on %s: emitted names %v, expected %v", foundOf[k], r.B, r.A, r.GoArch, got, want), r)
			return
		}
		if len(want) > 0 {
			atomic.AddInt64(&nonEmpty, 1)
		}
		// the YAML profile loads through the configuration path and allows exactly those syscalls
		if r.Format == "config" {
			back, err := loadThroughConfigPath([]byte(res.Stdout))
			if err != nil {
				ctx.Violation("C18:profile-does-not-load:"+cls, fmt.Sprintf("the emitted YAML does not load through the configuration path: %v\n%s", err, clip(res.Stdout, 500)), r)
				return
			}
			ref := &seccomp.Policy{DefaultAction: seccomp.ActionErrno, Syscalls: []seccomp.SyscallGroup{{Action: seccomp.ActionAllow, Names: want}}}
			out := engine.CheckPolicy(a, back, engine.Options{ExtraNr: boundaryNrs(a, numbersOf(a, want))})
			atomic.AddInt64(&events, int64(out.Events))
			if !out.Accepted {
				ctx.Violation("C18:profile-does-not-compile:"+cls, fmt.Sprintf("the emitted profile (names %v) is rejected by the compiler: %v", want, out.Err), r)
				return
			}
			for _, is := range out.Issues {
				ctx.Violation("C18:profile-filter:"+is.Class+":"+cls, "the filter compiled from the emitted profile misbehaves: "+is.What, r)
			}
			// and it denotes exactly the expected policy
			lh, _ := compileHash(a, back)
			rh, _ := compileHash(a, ref)
			if lh != rh {
				ctx.Violation("C18:profile-policy-differs:"+cls, fmt.Sprintf("the loaded profile compiles differently from {default errno, allow %v}", want), r)
			}
		}
		if i%499 == 0 {
			ctx.Sample(map[string]any{"run": r, "found": foundOf[k], "emitted": got})
		}
	})
	// a disassembly that cannot be read to the end (a 70000-byte line between the sites): whatever the profiler prints with
	// exit status 0 has to be the list for ALL sites of the listing - a profile made from the readable part is not "exactly the
	// syscalls discovered in the binary"
	var unreadable int64
	if replay == "" {
		type ur struct {
			GoArch string `json:"goarch"`
			Format string `json:"format"`
			At     int    `json:"long_line_before_function"`
		}
		var urs []ur
		for _, ga := range []string{"amd64", "386"} {
			for _, f := range []string{"config", "code"} {
				for at := 0; at < c18Sites; at++ {
					urs = append(urs, ur{ga, f, at})
				}
			}
		}
		parallelFor(len(urs), func(i int) {
			u := urs[i]
			a := archOf[u.GoArch]
			full := 1<<c18Sites - 1
			txt, found := c18Listing(a, full, u.GoArch == "386")
			marker := fmt.Sprintf("TEXT main.site%d(SB)", u.At)
			k := strings.Index(txt, marker)
			if k < 0 {
				return
			}
			txt = txt[:k] + "  p.go:0\t0x1\t90\t" + strings.Repeat("X", 70000) + "\n" + txt[k:]
			lp := filepath.Join(scratch, fmt.Sprintf("unreadable-%d.lst", i))
			os.WriteFile(lp, []byte(txt), 0o644)
			defer os.Remove(lp)
			bin := filepath.Join(scratch, fmt.Sprintf("c18-%d-%d", os.Getpid(), atomic.AddInt64(&seq, 1)))
			if os.Link(pe.hello[u.GoArch], bin) != nil {
				copyFile(pe.hello[u.GoArch], bin)
			}
			defer os.Remove(bin)
			defer os.Remove(profilerCachePath(pe.home, bin))
			res := runCmd(60*time.Second, pe.env(lp, nil), scratch, pe.profiler, "-format", u.Format, bin)
			atomic.AddInt64(&done, 1)
			atomic.AddInt64(&unreadable, 1)
			if res.Exit != 0 {
				return // refusing is right
			}
			var got []string
			var perr error
			if u.Format == "config" {
				got, perr = namesFromYAML(res.Stdout)
			} else {
				got, perr = namesFromGoCode(res.Stdout, u.GoArch)
			}
			want := dedup(append([]string{}, found...))
			sort.Strings(want)
			want = dedup(want)
			if perr != nil || strings.Join(got, ",") != strings.Join(want, ",") {
				ctx.Violation("C18:partial-listing-profiled:"+u.Format+":"+u.GoArch, fmt.Sprintf("the disassembly has a line that cannot be read (70000 bytes, before function %d of %d), the profiler exited 0 and emitted %v; all sites of the listing are %v", u.At, c18Sites, got, want), u)
			}
		})
	}
	ctx.Cov["runs_on_a_disassembly_that_cannot_be_read_to_the_end"] = unreadable
	ctx.Cov["evaluations"] = done + events
	ctx.Cov["distinct_nontrivial"] = nonEmpty
	ctx.Cov["profiler_runs"] = done
	ctx.Cov["runs_with_non_empty_profile"] = nonEmpty
	ctx.Cov["filter_events_executed"] = events
	ctx.Cov["rule"] = "the real profiler binary (with a fake `go` tool printing a synthetic listing, a quarter of the runs without the final newline) is run for every sub-multiset of a 7-site universe (read, write at two sites, exit_group, a number in no table, syscall 0 through the XOR idiom, readv = a name with another discovered name as proper prefix) x blacklist subsets of {read, exit_group, bogus_syscall, readv} x allow subsets of {write, rt_sigreturn, bogus_allow, waitpid(i386 only)} x flag spellings (comma, semicolon, blank+comma, repeated flag, a name repeated inside one value, a name repeated across flags) x formats {config, code} x binaries {amd64, 386} x output destination in rotation {stdout, -out with a GOOS/GOARCH template naming a fresh file, -out naming a file that an earlier more permissive invocation wrote a longer profile to} (quick: a rotating selection of the last dimensions; thorough: the full product); the emitted name list (YAML parsed by the harness / Go code parsed with go/parser) must equal sort(dedup((found ∩ table) − blacklist) ∪ (allow ∩ table)); the YAML must load through ucfg and compile to a filter that, on every cell of the exact partition, allows exactly those syscalls and answers errno otherwise; plus runs on a disassembly with an over-long line before each function: exit status 0 is only acceptable with the list for all sites; non-trivial = runs with a non-empty profile"
	ctx.Assumptions = []string{"set algebra of the statement for disjoint flag sets", "the fake go tool stands for the disassembler"}
	if replay != "" {
		return finishReplay(ctx)
	}
	return ctx.Finish()
}

func cls0(r c18Run) string { return r.Format + ":" + r.GoArch }

func dedup(s []string) []string {
	var out []string
	for i, x := range s {
		if i == 0 || x != s[i-1] {
			out = append(out, x)
		}
	}
	return out
}

func namesFromYAML(text string) ([]string, error) {
	var doc struct {
		Seccomp struct {
			DefaultAction string `yaml:"default_action"`
			Syscalls      []struct {
				Names  []string `yaml:"names"`
				Action string   `yaml:"action"`
				Conds  []any    `yaml:"names_with_args"`
			} `yaml:"syscalls"`
		} `yaml:"seccomp"`
	}
	if err := yaml.Unmarshal([]byte(text), &doc); err != nil {
		return nil, err
	}
	if doc.Seccomp.DefaultAction != "errno" {
		return nil, fmt.Errorf("default_action is %q, want errno", doc.Seccomp.DefaultAction)
	}
	if len(doc.Seccomp.Syscalls) != 1 || doc.Seccomp.Syscalls[0].Action != "allow" || len(doc.Seccomp.Syscalls[0].Conds) != 0 {
		return nil, fmt.Errorf("expected exactly one allow group without conditions, got %+v", doc.Seccomp.Syscalls)
	}
	return doc.Seccomp.Syscalls[0].Names, nil
}

func namesFromGoCode(src, goarch string) ([]string, error) {
	fset := token.NewFileSet()
	f, err := parser.ParseFile(fset, "profile.go", src, parser.ParseComments)
	if err != nil {
		return nil, err
	}
	if !strings.Contains(src, "+build linux,"+goarch) {
		return nil, fmt.Errorf("build constraint for linux,%s missing", goarch)
	}
	var names []string
	var defAct, grpAct string
	found := false
	ast.Inspect(f, func(n ast.Node) bool {
		kv, ok := n.(*ast.KeyValueExpr)
		if !ok {
			return true
		}
		key, _ := kv.Key.(*ast.Ident)
		if key == nil {
			return true
		}
		switch key.Name {
		case "Names":
			if cl, ok := kv.Value.(*ast.CompositeLit); ok {
				found = true
				for _, e := range cl.Elts {
					if bl, ok := e.(*ast.BasicLit); ok {
						s, _ := strconv.Unquote(bl.Value)
						names = append(names, s)
					}
				}
			}
		case "DefaultAction":
			if se, ok := kv.Value.(*ast.SelectorExpr); ok {
				defAct = se.Sel.Name
			}
		case "Action":
			if se, ok := kv.Value.(*ast.SelectorExpr); ok {
				grpAct = se.Sel.Name
			}
		}
		return true
	})
	if !found {
		return nil, fmt.Errorf("no Names literal")
	}
	if defAct != "ActionErrno" || grpAct != "ActionAllow" {
		return nil, fmt.Errorf("actions are %s/%s, want ActionErrno/ActionAllow", defAct, grpAct)
	}
	return names, nil
}
