package main

import (
	"bytes"
	"encoding/json"
	"fmt"
	"go/ast"
	"go/parser"
	"go/token"
	"os"
	"os/exec"
	"path/filepath"
	"sort"
	"strings"
	"sync"
	"sync/atomic"
	"time"

	"github.com/elastic/go-seccomp-bpf/arch"

	"verif/harness/evid"
	"verif/harness/refsem"
)

func init() { register("C19", checkC19) }

func repoDir() string {
	if r := os.Getenv("VERIF_REPO"); r != "" {
		return r
	}
	return "/repo"
}

// expected UAPI values per constant name (root package and internal/unix), from oracles.json
func c19Expected(goos, goarch string) map[string]uint64 {
	c := refsem.LoadOracles().Consts
	enosys := c["ENOSYS"]
	if (goos == "linux" || goos == "android") && strings.HasPrefix(goarch, "mips") {
		enosys = c["ENOSYS_mips"]
	}
	return map[string]uint64{
		// root package
		"ActionKillThread": c["SECCOMP_RET_KILL_THREAD"], "ActionKillProcess": c["SECCOMP_RET_KILL_PROCESS"], "ActionTrap": c["SECCOMP_RET_TRAP"],
		"ActionErrno": c["SECCOMP_RET_ERRNO"], "ActionTrace": c["SECCOMP_RET_TRACE"], "ActionLog": c["SECCOMP_RET_LOG"], "ActionAllow": c["SECCOMP_RET_ALLOW"],
		"ActionUserNotify": c["SECCOMP_RET_USER_NOTIF"], "FilterFlagTSync": c["SECCOMP_FILTER_FLAG_TSYNC"], "FilterFlagLog": c["SECCOMP_FILTER_FLAG_LOG"],
		"errnoEPERM": c["EPERM"], "errnoENOSYS": enosys, "prSetNoNewPrivs": c["PR_SET_NO_NEW_PRIVS"],
		"seccompSetModeStrict": c["SECCOMP_SET_MODE_STRICT"], "seccompSetModeFilter": c["SECCOMP_SET_MODE_FILTER"], "x32SyscallMask": 0x40000000,
		"syscallNumOffset": 0, "archOffset": 4, "argumentOffset": 16, "sizeOfUint32": 4, "sizeOfUint64": 8,
		// internal/unix
		"PR_SET_NO_NEW_PRIVS": c["PR_SET_NO_NEW_PRIVS"], "SECCOMP_SET_MODE_STRICT": c["SECCOMP_SET_MODE_STRICT"], "SECCOMP_SET_MODE_FILTER": c["SECCOMP_SET_MODE_FILTER"],
		"SECCOMP_RET_KILL_THREAD": c["SECCOMP_RET_KILL_THREAD"], "SECCOMP_RET_KILL_PROCESS": c["SECCOMP_RET_KILL_PROCESS"], "SECCOMP_RET_TRAP": c["SECCOMP_RET_TRAP"],
		"SECCOMP_RET_ERRNO": c["SECCOMP_RET_ERRNO"], "SECCOMP_RET_TRACE": c["SECCOMP_RET_TRACE"], "SECCOMP_RET_LOG": c["SECCOMP_RET_LOG"], "SECCOMP_RET_ALLOW": c["SECCOMP_RET_ALLOW"],
		"SECCOMP_RET_USER_NOTIF": c["SECCOMP_RET_USER_NOTIF"], "EPERM": c["EPERM"], "ENOSYS": enosys,
		"SECCOMP_FILTER_FLAG_TSYNC": c["SECCOMP_FILTER_FLAG_TSYNC"], "SECCOMP_FILTER_FLAG_LOG": c["SECCOMP_FILTER_FLAG_LOG"],
	}
}

var c19ExpectedStrings = map[string]string{"Equal": "Equal", "NotEqual": "NotEqual", "GreaterThan": "GreaterThan", "LessThan": "LessThan",
	"GreaterOrEqual": "GreaterOrEqual", "LessOrEqual": "LessOrEqual", "BitsSet": "BitsSet", "BitsNotSet": "BitsNotSet"}

// constNames lists the package-level constants declared in the given files.
func constNames(files []string) []string {
	fset := token.NewFileSet()
	seen := map[string]bool{}
	for _, f := range files {
		af, err := parser.ParseFile(fset, f, nil, 0)
		if err != nil {
			continue
		}
		for _, d := range af.Decls {
			gd, ok := d.(*ast.GenDecl)
			if !ok || gd.Tok != token.CONST {
				continue
			}
			for _, sp := range gd.Specs {
				for _, n := range sp.(*ast.ValueSpec).Names {
					if n.Name != "_" {
						seen[n.Name] = true
					}
				}
			}
		}
	}
	var out []string
	for n := range seen {
		out = append(out, n)
	}
	sort.Strings(out)
	return out
}

type goListPkg struct {
	Dir        string
	ImportPath string
	GoFiles    []string
	Imports    []string
}

func goList(goos, goarch, dir string, pkgs ...string) ([]goListPkg, error) {
	cmd := exec.Command("go", append([]string{"list", "-json"}, pkgs...)...)
	cmd.Dir = dir
	cmd.Env = append(os.Environ(), "GOOS="+goos, "GOARCH="+goarch, "CGO_ENABLED=0")
	out, err := cmd.Output()
	if err != nil {
		return nil, err
	}
	dec := json.NewDecoder(bytes.NewReader(out))
	var res []goListPkg
	for dec.More() {
		var p goListPkg
		if err := dec.Decode(&p); err != nil {
			return nil, err
		}
		res = append(res, p)
	}
	return res, nil
}

func checkC19(tier, replay string) int {
	ctx := evid.New("C19", tier, "exploration")
	repo := repoDir()
	out, err := exec.Command("go", "tool", "dist", "list").Output()
	if err != nil {
		fmt.Println("go tool dist list:", err)
		return 2
	}
	targets := strings.Fields(string(out))
	scratch, _ := os.MkdirTemp("", "c19")
	defer os.RemoveAll(scratch)
	var built, asserts, stubTargets, unknownConsts, vetClean int64
	var unknownMu sync.Mutex
	unknownNames := map[string]bool{}
	goarchs := map[string]bool{}
	_, e1 := os.Stat(filepath.Join(repo, "seccomp_linux.go"))
	_, e2 := os.Stat(filepath.Join(repo, "seccomp_unsupported.go"))
	namedFilesExist := e1 == nil && e2 == nil
	ctx.Cov["loader_and_stub_files_found_under_their_names"] = namedFilesExist
	parallelFor(len(targets), func(i int) {
		t := targets[i]
		parts := strings.SplitN(t, "/", 2)
		goos, goarch := parts[0], parts[1]
		unknownMu.Lock()
		goarchs[goarch] = true
		unknownMu.Unlock()
		pkgs, err := goList(goos, goarch, repo, ".", "./arch", "./internal/unix")
		if err != nil || len(pkgs) != 3 {
			ctx.Violation("C19:list:"+t, fmt.Sprintf("go list fails for %s: %v", t, err), map[string]any{"target": t})
			return
		}
		exp := c19Expected(goos, goarch)
		overlay := map[string]string{}
		for _, p := range pkgs {
			if strings.HasSuffix(p.ImportPath, "/arch") {
				continue
			}
			var files []string
			for _, f := range p.GoFiles {
				files = append(files, filepath.Join(p.Dir, f))
			}
			pkgName := "seccomp"
			if strings.HasSuffix(p.ImportPath, "/unix") {
				pkgName = "unix"
			}
			var b strings.Builder
			fmt.Fprintf(&b, "package %s\n\n// generated by the verification harness: each line compiles only if the constant has the expected value\n", pkgName)
			for _, n := range constNames(files) {
				if sv, isStr := c19ExpectedStrings[n]; isStr {
					// a duplicate constant map key is a compile error: compiles only if the comparison is true
					fmt.Fprintf(&b, "var _ = map[bool]struct{}{false: {}, %s == %q: {}}\n", n, sv)
					atomic.AddInt64(&asserts, 1)
					continue
				}
				v, ok := exp[n]
				if !ok {
					atomic.AddInt64(&unknownConsts, 1)
					unknownMu.Lock()
					unknownNames[n] = true
					unknownMu.Unlock()
					continue
				}
				fmt.Fprintf(&b, "var _ = [1]struct{}{}[uint64(%s)-%d]\nvar _ = [1]struct{}{}[%d-uint64(%s)]\n", n, v, v, n)
				atomic.AddInt64(&asserts, 1)
			}
			af := filepath.Join(scratch, strings.ReplaceAll(t, "/", "_")+"_"+pkgName+".go")
			os.WriteFile(af, []byte(b.String()), 0o644)
			overlay[filepath.Join(p.Dir, "zz_verif_assert.go")] = af
		}
		ob, _ := json.Marshal(map[string]any{"Replace": overlay})
		of := filepath.Join(scratch, strings.ReplaceAll(t, "/", "_")+"_overlay.json")
		os.WriteFile(of, ob, 0o644)
		args := []string{"build", "-overlay", of, ".", "./arch", "./internal/unix"}
		if tier == "thorough" {
			// vet is informational only (some targets cannot be vetted without cgo); the verdict comes from the build
			vc := exec.Command("go", "vet", "-overlay", of, ".", "./arch", "./internal/unix")
			vc.Dir = repo
			vc.Env = append(os.Environ(), "GOOS="+goos, "GOARCH="+goarch, "CGO_ENABLED=0")
			if vc.Run() == nil {
				atomic.AddInt64(&vetClean, 1)
			}
		}
		cmd := exec.Command("go", args...)
		cmd.Dir = repo
		cmd.Env = append(os.Environ(), "GOOS="+goos, "GOARCH="+goarch, "CGO_ENABLED=0")
		bo, err := cmd.CombinedOutput()
		if err != nil {
			msg := string(bo)
			if len(msg) > 600 {
				msg = msg[:600]
			}
			// distinguish "constant differs" (assertion lines fail) from a build that fails for other reasons
			kind := "build"
			if strings.Contains(msg, "zz_verif_assert.go") {
				kind = "constant"
			}
			ctx.Violation(fmt.Sprintf("C19:%s:%s", kind, t), fmt.Sprintf("%s: %s failure with the constant assertions overlaid: %s", t, kind, msg), map[string]any{"target": t, "output": msg})
			return
		}
		atomic.AddInt64(&built, 1)
		// file selection and stub facts on non-Linux targets
		root := pkgs[0]
		has := func(name string) bool {
			// the two file names are those of the tree as it is; if a file was renamed the question cannot be asked by
			// name, and the executed-stub phases answer it instead
			if !namedFilesExist {
				return name == "seccomp_linux.go" == (goos == "linux" || goos == "android")
			}
			for _, f := range root.GoFiles {
				if f == name {
					return true
				}
			}
			return false
		}
		isLinux := goos == "linux" || goos == "android" // GOOS=android satisfies the linux build constraint
		if !isLinux {
			atomic.AddInt64(&stubTargets, 1)
			if has("seccomp_linux.go") || !has("seccomp_unsupported.go") {
				ctx.Violation("C19:files:"+t, fmt.Sprintf("%s: loader/stub file selection is wrong: %v", t, root.GoFiles), map[string]any{"target": t})
			}
			for _, imp := range root.Imports {
				if imp == "syscall" || strings.HasPrefix(imp, "golang.org/x/sys") || imp == "unsafe" && false {
					ctx.Violation("C19:imports:"+t, fmt.Sprintf("%s: the package imports %s on a non-Linux target", t, imp), map[string]any{"target": t})
				}
			}
		} else if !has("seccomp_linux.go") || has("seccomp_unsupported.go") {
			ctx.Violation("C19:files:"+t, fmt.Sprintf("%s: loader/stub file selection is wrong: %v", t, root.GoFiles), map[string]any{"target": t})
		}
	})
	// the stubs are executed where that is possible here (js/wasm under node, every host call recorded); only if it is not,
	// the stub file is judged by its syntax: no call expressions, no imports, Supported returns the literal false
	ranJS, noteJS := c19StubRuntime(ctx, scratch)
	ranNative, noteNative := c19StubNative(ctx, scratch)
	ctx.Cov["stubs_executed_on_js_wasm_under_node"] = noteJS
	ctx.Cov["stub_sources_executed_on_linux_under_strace"] = noteNative
	if !ranJS && !ranNative {
		ctx.Cov["stubs_judged_syntactically"] = true
		stubFacts(ctx, filepath.Join(repo, "seccomp_unsupported.go"))
	}
	// every GOARCH of the distribution list: table exactly for 386, amd64, arm, arm64
	withTable := map[string]bool{"386": true, "amd64": true, "arm": true, "arm64": true}
	var archs []string
	for a := range goarchs {
		archs = append(archs, a)
	}
	sort.Strings(archs)
	for _, a := range archs {
		info, err := arch.GetInfo(a)
		if withTable[a] {
			if err != nil || info == nil || len(info.SyscallNames) == 0 {
				ctx.Violation("C19:getinfo:"+a, fmt.Sprintf("GetInfo(%q) fails (%v) although a table exists", a, err), nil)
			}
		} else if err == nil || info != nil {
			ctx.Violation("C19:getinfo:"+a, fmt.Sprintf("GetInfo(%q) returns %v for a target without syscall table; compilation there would produce a filter", a, info), nil)
		}
	}
	emulated := c19ImplicitArch(ctx, repo, scratch, archs, withTable)
	ctx.Cov["programs_compared_between_a_64_bit_and_a_32_bit_build_of_the_library"] = c19CrossBuildPrograms(ctx, scratch)
	ctx.Cov["goarchs_emulated_for_the_implicit_architecture_path"] = emulated
	ctx.Cov["evaluations"] = asserts + built + int64(len(archs)) + int64(emulated)
	ctx.Cov["distinct_nontrivial"] = built
	ctx.Cov["targets"] = len(targets)
	ctx.Cov["targets_built_with_assertions"] = built
	ctx.Cov["compile_time_constant_assertions"] = asserts
	if tier == "thorough" {
		ctx.Cov["targets_also_clean_under_go_vet"] = vetClean
	}
	ctx.Cov["non_linux_targets_with_stub_facts"] = stubTargets
	ctx.Cov["goarchs_looked_up"] = len(archs)
	ctx.Cov["constants_without_oracle_value"] = unknownConsts
	var un []string
	for n := range unknownNames {
		un = append(un, n)
	}
	sort.Strings(un)
	ctx.Cov["constant_names_without_oracle_value"] = un
	ctx.Cov["rule"] = "every GOOS/GOARCH pair of `go tool dist list` is built (thorough: additionally vetted, informational) with an overlay-added file per package that asserts, for every constant declared in the files selected for that target, equality with the vendored Linux UAPI value (two array-index expressions that only compile if equal; ENOSYS is 89 on linux/mips*, 38 elsewhere); file selection (loader vs stub) from go list; the stubs are executed: a probe built for js/wasm runs under node with a preloaded hook that records every call into node's fs and process objects (the only system interface of such a program) while Supported, SetNoNewPrivs and 48 LoadFilter calls (no_new_privs x 4 flag words x 6 policies incl. invalid ones) run - Supported must be false and no host call may be recorded, a control window with a real getuid call shows that the hook sees calls and the same entry points are run natively under strace from a build in which, through an overlay, the files selected only for Linux are emptied and the files selected only for non-Linux targets (the stubs, according to go list for darwin) take their place: between two marker system calls no system call other than the Go runtime's own memory and scheduling calls may appear (only if neither execution is possible the stub file is judged by its syntax: no imports, no call expressions, Supported returns the literal false); GetInfo(goarch) for every GOARCH must have a table exactly for 386/amd64/arm/arm64; for every GOARCH a probe is built with an overlay that substitutes runtime.GOARCH in the library sources and run on the host: with the architecture left implicit (and, for two targets, with GOARCH/GOOS set to other values in the process environment, which must change nothing), GetInfo(\"\") and Policy.Assemble must fail with an unsupported-architecture error on targets without tables and succeed on the four with tables; a program probe (700+ policies over all four tables: whole tables, three groups, all operations x all argument indices x operands) is built for the host and for GOARCH=386, both are run here, and every program digest must be identical; non-trivial = targets whose build with assertions succeeded"
	ctx.Sample(map[string]any{"target": "darwin/arm64", "assertion": "var _ = [1]struct{}{}[uint64(ActionAllow)-2147418112]"})
	ctx.Assumptions = []string{"foreign targets are compiled and constant-evaluated by the real compiler, not executed", "vendored UAPI values from this image's linux/seccomp.h, linux/prctl.h, asm-generic/errno.h"}
	return finishOrReplay(ctx, replay)
}

func stubFacts(ctx *evid.Ctx, path string) {
	fset := token.NewFileSet()
	af, err := parser.ParseFile(fset, path, nil, 0)
	if err != nil {
		ctx.Violation("C19:stub:parse", "cannot parse the stub file: "+err.Error(), nil)
		return
	}
	if len(af.Imports) != 0 {
		ctx.Violation("C19:stub:imports", "the non-Linux stub file imports packages (a system call would be possible)", nil)
	}
	funcs := map[string]*ast.FuncDecl{}
	for _, d := range af.Decls {
		if fd, ok := d.(*ast.FuncDecl); ok {
			funcs[fd.Name.Name] = fd
			ast.Inspect(fd, func(n ast.Node) bool {
				if _, ok := n.(*ast.CallExpr); ok {
					ctx.Violation("C19:stub:call:"+fd.Name.Name, "stub "+fd.Name.Name+" contains a call expression", nil)
				}
				if _, ok := n.(*ast.GoStmt); ok {
					ctx.Violation("C19:stub:go:"+fd.Name.Name, "stub "+fd.Name.Name+" starts a goroutine", nil)
				}
				return true
			})
		}
	}
	for _, want := range []string{"Supported", "SetNoNewPrivs", "LoadFilter"} {
		if funcs[want] == nil {
			ctx.Violation("C19:stub:missing:"+want, "stub "+want+" is missing", nil)
		}
	}
	if fd := funcs["Supported"]; fd != nil {
		ok := false
		if len(fd.Body.List) == 1 {
			if rs, isRet := fd.Body.List[0].(*ast.ReturnStmt); isRet && len(rs.Results) == 1 {
				if id, isID := rs.Results[0].(*ast.Ident); isID && id.Name == "false" {
					ok = true
				}
			}
		}
		if !ok {
			ctx.Violation("C19:stub:supported", "Supported() on non-Linux targets is not `return false`", nil)
		}
	}
}

// c19ImplicitArch runs, for every GOARCH, the code path a binary built for that target takes when the architecture is
// left implicit (GetInfo(""), Policy.Assemble with no architecture set): runtime.GOARCH is substituted through an overlay.
func c19ImplicitArch(ctx *evid.Ctx, repo, scratch string, archs []string, withTable map[string]bool) int {
	var srcs []string
	for _, dir := range []string{repo, filepath.Join(repo, "arch")} {
		m, _ := filepath.Glob(filepath.Join(dir, "*.go"))
		for _, f := range m {
			if strings.HasSuffix(f, "_test.go") {
				continue
			}
			b, err := os.ReadFile(f)
			if err == nil && strings.Contains(string(b), "runtime.GOARCH") {
				srcs = append(srcs, f)
			}
		}
	}
	if len(srcs) == 0 {
		ctx.Capped("no source file mentions runtime.GOARCH: the implicit-architecture path could not be emulated")
		return 0
	}
	var done int64
	parallelFor(len(archs), func(i int) {
		ga := archs[i]
		overlay := map[string]string{}
		for k, f := range srcs {
			b, _ := os.ReadFile(f)
			txt := strings.ReplaceAll(string(b), "runtime.GOARCH", fmt.Sprintf("%q", ga)) + "\n\nvar _ = runtime.Compiler // keeps the import used (added by the verification harness)\n"
			dst := filepath.Join(scratch, fmt.Sprintf("implicit_%s_%d.go", ga, k))
			os.WriteFile(dst, []byte(txt), 0o644)
			overlay[f] = dst
		}
		ob, _ := json.Marshal(map[string]any{"Replace": overlay})
		of := filepath.Join(scratch, "implicit_"+ga+".json")
		os.WriteFile(of, ob, 0o644)
		bin := filepath.Join(scratch, "archprobe-"+ga)
		args := []string{"build"}
		if mf := os.Getenv("VERIF_MODFILE"); mf != "" {
			args = append(args, "-modfile="+mf)
		}
		args = append(args, "-overlay", of, "-o", bin, "./cmd/archprobe")
		bc := exec.Command("go", args...)
		bc.Dir = filepath.Join(evid.Root(), "harness")
		if b, err := bc.CombinedOutput(); err != nil {
			ctx.Capped(fmt.Sprintf("probe for GOARCH %s does not build: %.300s", ga, b))
			return
		}
		out, err := exec.Command(bin).Output()
		var r map[string]any
		if err != nil || json.Unmarshal(bytes.TrimSpace(out), &r) != nil {
			if ee, ok := err.(*exec.ExitError); ok && libraryPanic(string(ee.Stderr)) != "" {
				// the probe only calls GetInfo and Assemble: a Go panic with library frames is the library crashing where an
				// error (or a result) is due
				ctx.Violation("C19:implicit-arch:panic:"+ga, fmt.Sprintf("in a binary built for GOARCH %s the library panics instead of returning a result or an unsupported-architecture error: %s", ga, libraryPanic(string(ee.Stderr))), map[string]any{"goarch": ga, "stderr": clip(string(ee.Stderr), 1500)})
				return
			}
			ctx.Capped("probe for GOARCH " + ga + " failed to run")
			return
		}
		atomic.AddInt64(&done, 1)
		rep := map[string]any{"goarch": ga, "probe": r}
		// what the binary was built for decides, not what the environment of the running process says (GOARCH / GOOS are
		// variables of the go tool, a built program must not care)
		if ga == "amd64" || ga == "ppc64le" {
			for _, ev := range [][]string{{"GOARCH=386"}, {"GOARCH=arm64", "GOOS=linux"}, {"GOARCH=ppc64le"}, {"GOARCH=amd64", "GOOS=plan9"}} {
				cmd := exec.Command(bin)
				cmd.Env = append(os.Environ(), ev...)
				out2, err2 := cmd.Output()
				if err2 != nil || string(bytes.TrimSpace(out2)) != string(bytes.TrimSpace(out)) {
					ctx.Violation("C19:implicit-arch:environment:"+ga, fmt.Sprintf("a binary built for GOARCH %s behaves differently with %v in its environment: %s instead of %s (err %v)", ga, ev, clip(string(out2), 300), clip(string(out), 300), err2), map[string]any{"goarch": ga, "env": ev})
				}
			}
		}
		if withTable[ga] {
			if r["getinfo_err"] != nil || r["default_only_err"] != nil || r["named_err"] != nil || r["named_again_err"] != nil || r["named_third_err"] != nil {
				ctx.Violation("C19:implicit-arch:"+ga, fmt.Sprintf("a binary built for GOARCH %s fails although a syscall table exists: %v", ga, r), rep)
			}
			return
		}
		if r["getinfo_err"] == nil {
			ctx.Violation("C19:implicit-arch:getinfo:"+ga, fmt.Sprintf("in a binary built for GOARCH %s (no syscall table) GetInfo(\"\") succeeds: %v", ga, r), rep)
		}
		for _, k := range []string{"default_only", "named", "default_only_again", "named_again", "default_only_fresh_copy", "named_fresh_copy", "default_only_third", "named_third"} {
			e, _ := r[k+"_err"].(string)
			n, _ := r[k+"_len"].(float64)
			if e == "" || n != 0 {
				ctx.Violation("C19:implicit-arch:assemble:"+ga, fmt.Sprintf("in a binary built for GOARCH %s (no syscall table) Policy.Assemble of a %s policy produces a filter (%d instructions, err=%q)", ga, k, int(n), e), rep)
			} else if !strings.Contains(e, "unsupported arch") {
				ctx.Violation("C19:implicit-arch:error-kind:"+ga, fmt.Sprintf("in a binary built for GOARCH %s Policy.Assemble of a %s policy fails with %q instead of an unsupported-architecture error", ga, k, e), rep)
			}
		}
	})
	return int(done)
}

// c19CrossBuildPrograms: the same policies compiled by a 64-bit and by a 32-bit build of the library must give identical
// programs (GOARCH=386 binaries run on this machine).
func c19CrossBuildPrograms(ctx *evid.Ctx, scratch string) int {
	outs := map[string]string{}
	for _, ga := range []string{"amd64", "386"} {
		bin := filepath.Join(scratch, "progprobe-"+ga)
		args := []string{"build"}
		if mf := os.Getenv("VERIF_MODFILE"); mf != "" {
			args = append(args, "-modfile="+mf)
		}
		args = append(args, "-tags", "verif", "-o", bin, "./cmd/progprobe")
		bc := exec.Command("go", args...)
		bc.Dir = filepath.Join(evid.Root(), "harness")
		bc.Env = append(os.Environ(), "GOARCH="+ga, "GOOS=linux", "CGO_ENABLED=0")
		if b, err := bc.CombinedOutput(); err != nil {
			ctx.Capped(fmt.Sprintf("program probe does not build for %s: %.300s", ga, b))
			return 0
		}
		out, err := exec.Command(bin).Output()
		if err != nil {
			ctx.Capped(fmt.Sprintf("program probe for %s cannot run here: %v", ga, err))
			return 0
		}
		outs[ga] = string(out)
	}
	a, b := strings.Split(outs["amd64"], "\n"), strings.Split(outs["386"], "\n")
	n := 0
	for i := 0; i < len(a) && i < len(b); i++ {
		if a[i] == "" {
			continue
		}
		n++
		if a[i] != b[i] {
			ctx.Violation("C19:cross-build-program:"+strings.SplitN(a[i], " ", 2)[0], fmt.Sprintf("the same policy compiles to different programs in a 64-bit and a 32-bit build of the library: amd64 build: %q, 386 build: %q", a[i], b[i]), map[string]any{"amd64": a[i], "386": b[i]})
		}
	}
	if len(a) != len(b) {
		ctx.Violation("C19:cross-build-program:count", "the program probe prints a different number of results in the two builds", nil)
	}
	return n
}

// c19StubRuntime builds harness/cmd/stubprobe for js/wasm and runs it under node with the recording hook.
func c19StubRuntime(ctx *evid.Ctx, scratch string) (bool, string) {
	node, err := exec.LookPath("node")
	if err != nil {
		return false, "node is not installed"
	}
	gr, err := exec.Command("go", "env", "GOROOT").Output()
	if err != nil {
		return false, "go env GOROOT failed"
	}
	runner := ""
	for _, d := range []string{"misc/wasm", "lib/wasm"} {
		p := filepath.Join(strings.TrimSpace(string(gr)), d, "wasm_exec_node.js")
		if _, err := os.Stat(p); err == nil {
			runner = p
		}
	}
	if runner == "" {
		return false, "wasm_exec_node.js not found under GOROOT"
	}
	hook := filepath.Join(evid.Root(), "harness", "cmd", "stubprobe", "hook.js")
	wasm, err := buildTool(scratch, "stubprobe.wasm", "./cmd/stubprobe", "GOOS=js", "GOARCH=wasm", "CGO_ENABLED=0")
	if err != nil {
		// the library must build for js/wasm (the cross-build phase reports that); here it only means no execution
		return false, "probe does not build for js/wasm: " + clip(err.Error(), 200)
	}
	r := runCmd(120*time.Second, []string{"PATH=/usr/bin:/bin", "HOME=" + scratch}, scratch, node, "-r", hook, runner, wasm)
	var line, hostLine string
	for _, l := range strings.Split(r.Stdout+"\n"+r.Stderr, "\n") {
		if strings.HasPrefix(l, "STUBPROBE ") {
			line = l
		}
		if strings.HasPrefix(l, "HOSTCALLS ") {
			hostLine = l[len("HOSTCALLS "):]
		}
	}
	var calls struct {
		Stubs   []string `json:"stubs"`
		Control []string `json:"control"`
	}
	if lp := libraryPanic(r.Stderr + "\n" + r.Stdout); lp != "" {
		ctx.Violation("C19:stub-runtime:panic", "on js/wasm (a non-Linux target without syscall table) the program that only calls Supported, SetNoNewPrivs and LoadFilter dies with a panic in the library: "+lp, map[string]any{"target": "js/wasm", "output": clip(r.Stderr+r.Stdout, 1500)})
		return true, "panicked"
	}
	if line == "" || hostLine == "" || json.Unmarshal([]byte(hostLine), &calls) != nil || r.Exit != 0 {
		return false, fmt.Sprintf("probe run gave no result (exit %d, %.200s)", r.Exit, r.Stderr)
	}
	if len(calls.Control) == 0 {
		return false, "the hook did not see the control call (getuid): it cannot be trusted to see others"
	}
	if !strings.Contains(line, "supported=[false false]") {
		ctx.Violation("C19:stub-runtime:supported", "on js/wasm (a non-Linux target) Supported() does not report false: "+line, map[string]any{"target": "js/wasm"})
	}
	if len(calls.Stubs) > 0 {
		ctx.Violation("C19:stub-runtime:host-calls", fmt.Sprintf("on js/wasm the stubs (Supported, SetNoNewPrivs, 48 LoadFilter calls) called into the host: %v", calls.Stubs), map[string]any{"target": "js/wasm", "calls": calls.Stubs})
	}
	return true, line
}

// c19StubNative executes the source of the non-Linux stubs on this Linux host: go list says which files of the module's
// packages are selected for linux only and which for a non-Linux target only; an overlay empties the former and adds the
// latter (build constraints stripped) under new names; harness/cmd/stubnative is built against that and run under strace.
func c19StubNative(ctx *evid.Ctx, scratch string) (bool, string) {
	if !straceWorks() {
		return false, "strace cannot trace here"
	}
	type pkg struct {
		ImportPath string
		Dir        string
		Name       string
		GoFiles    []string
	}
	list := func(goos string) (map[string]pkg, error) {
		args := []string{"list", "-deps", "-json=ImportPath,Dir,Name,GoFiles"}
		if mf := os.Getenv("VERIF_MODFILE"); mf != "" {
			args = append(args, "-modfile="+mf)
		}
		args = append(args, "github.com/elastic/go-seccomp-bpf")
		cmd := exec.Command("go", args...)
		cmd.Dir = filepath.Join(evid.Root(), "harness")
		cmd.Env = append(os.Environ(), "GOOS="+goos, "GOARCH=amd64", "CGO_ENABLED=0")
		out, err := cmd.Output()
		if err != nil {
			return nil, err
		}
		res := map[string]pkg{}
		dec := json.NewDecoder(strings.NewReader(string(out)))
		for dec.More() {
			var p pkg
			if err := dec.Decode(&p); err != nil {
				return nil, err
			}
			if strings.HasPrefix(p.ImportPath, "github.com/elastic/go-seccomp-bpf") {
				res[p.ImportPath] = p
			}
		}
		return res, nil
	}
	lin, err1 := list("linux")
	oth, err2 := list("darwin")
	if err1 != nil || err2 != nil {
		return false, fmt.Sprintf("go list failed: %v %v", err1, err2)
	}
	overlay := map[string]string{}
	n, swapped := 0, 0
	for ip, lp := range lin {
		op, ok := oth[ip]
		if !ok {
			continue
		}
		inL, inO := map[string]bool{}, map[string]bool{}
		for _, f := range lp.GoFiles {
			inL[f] = true
		}
		for _, f := range op.GoFiles {
			inO[f] = true
		}
		for f := range inL {
			if !inO[f] {
				n++
				e := filepath.Join(scratch, fmt.Sprintf("stubnative-empty-%d.go", n))
				os.WriteFile(e, []byte("package "+lp.Name+"\n"), 0o644)
				overlay[filepath.Join(lp.Dir, f)] = e
				swapped++
			}
		}
		for f := range inO {
			if !inL[f] {
				b, err := os.ReadFile(filepath.Join(op.Dir, f))
				if err != nil {
					return false, "cannot read " + f
				}
				var keep []string
				for _, l := range strings.Split(string(b), "\n") {
					if strings.HasPrefix(l, "//go:build") || strings.HasPrefix(l, "// +build") {
						continue
					}
					keep = append(keep, l)
				}
				n++
				c := filepath.Join(scratch, fmt.Sprintf("stubnative-copy-%d.go", n))
				os.WriteFile(c, []byte(strings.Join(keep, "\n")), 0o644)
				overlay[filepath.Join(lp.Dir, fmt.Sprintf("zz_verif_nonlinux_%d.go", n))] = c
				swapped++
			}
		}
	}
	if swapped == 0 {
		return false, "no file of the module is selected by operating system"
	}
	ob, _ := json.Marshal(map[string]any{"Replace": overlay})
	ov := filepath.Join(scratch, "stubnative-overlay.json")
	os.WriteFile(ov, ob, 0o644)
	bin := filepath.Join(scratch, "stubnative")
	args := []string{"build"}
	if mf := os.Getenv("VERIF_MODFILE"); mf != "" {
		args = append(args, "-modfile="+mf)
	}
	args = append(args, "-overlay", ov, "-o", bin, "./cmd/stubnative")
	bc := exec.Command("go", args...)
	bc.Dir = filepath.Join(evid.Root(), "harness")
	bc.Env = append(os.Environ(), "CGO_ENABLED=0")
	if out, err := bc.CombinedOutput(); err != nil {
		// the non-Linux file set does not build on its own on Linux (it may legitimately need something else): no verdict
		return false, "the non-Linux file set does not build under the overlay: " + clip(string(out), 200)
	}
	trace := filepath.Join(scratch, "stubnative.trace")
	r := runCmd(120*time.Second, []string{"PATH=/usr/bin:/bin", "HOME=" + scratch, "GODEBUG=asyncpreemptoff=1", "GOMAXPROCS=1"}, scratch, "strace", "-f", "-o", trace, bin)
	tb, _ := os.ReadFile(trace)
	if r.Exit != 0 || !strings.Contains(r.Stdout, "STUBPROBE ") || len(tb) == 0 {
		return false, fmt.Sprintf("native probe run gave no result (exit %d, %.200s)", r.Exit, r.Stderr)
	}
	// the Go runtime's own memory management, scheduling and signal handling are not the stubs' doing
	noise := map[string]bool{"mmap": true, "munmap": true, "madvise": true, "brk": true, "mprotect": true, "futex": true, "nanosleep": true, "clock_nanosleep": true, "sched_yield": true,
		"rt_sigprocmask": true, "rt_sigreturn": true, "rt_sigaction": true, "sigaltstack": true, "clone": true, "clone3": true, "tgkill": true, "getpid": true, "gettid": true, "epoll_pwait": true, "epoll_wait": true, "set_robust_list": true, "rseq": true, "timer_settime": true, "timer_create": true, "timer_delete": true, "setitimer": true}
	window := func(name string) ([]string, bool) {
		tid, in, closed := "", false, false
		var calls []string
		for _, l := range strings.Split(string(tb), "\n") {
			f := strings.Fields(l)
			if len(f) < 2 {
				continue
			}
			if strings.Contains(l, name+"-WINDOW-BEGIN") {
				tid, in = f[0], true
				continue
			}
			if in && strings.Contains(l, name+"-WINDOW-END") {
				closed = true
				break
			}
			if !in || f[0] != tid {
				continue
			}
			rest := strings.TrimSpace(l[len(f[0]):])
			if strings.HasPrefix(rest, "<...") || strings.HasPrefix(rest, "---") || strings.HasPrefix(rest, "+++") {
				continue // the completion of a call already counted, a signal, an exit notice
			}
			if i := strings.IndexByte(rest, '('); i > 0 {
				if sc := rest[:i]; !noise[sc] {
					calls = append(calls, sc)
				}
			}
		}
		return calls, closed
	}
	control, ok1 := window("CONTROL")
	stubs, ok2 := window("STUB")
	hasGetuid := false
	for _, c := range control {
		if c == "getuid" {
			hasGetuid = true
		}
	}
	if !ok1 || !ok2 || !hasGetuid {
		return false, "the trace does not show the control call between its markers"
	}
	line := ""
	for _, l := range strings.Split(r.Stdout, "\n") {
		if strings.HasPrefix(l, "STUBPROBE ") {
			line = l
		}
	}
	if !strings.Contains(line, "supported=[false false]") {
		ctx.Violation("C19:stub-native:supported", "the non-Linux file set, executed on this host, does not report seccomp as unsupported: "+line, map[string]any{"target": "non-linux file set on linux/amd64"})
	}
	if len(stubs) > 0 {
		ctx.Violation("C19:stub-native:system-calls", fmt.Sprintf("the non-Linux stubs (Supported, SetNoNewPrivs, 48 LoadFilter calls), executed on this host, performed system calls: %v", stubs), map[string]any{"target": "non-linux file set on linux/amd64", "calls": stubs})
	}
	return true, fmt.Sprintf("%d files swapped; %s", swapped, line)
}

// libraryPanic returns the first line of a Go panic whose trace runs through the library's packages, "" otherwise.
func libraryPanic(out string) string {
	i := strings.Index(out, "panic: ")
	if i < 0 || !strings.Contains(out[i:], "github.com/elastic/go-seccomp-bpf") {
		return ""
	}
	line := out[i:]
	if k := strings.IndexByte(line, '\n'); k > 0 {
		line = line[:k]
	}
	return line
}
