//go:build cgolink

package main

// A second build of the harness that is linked with cgo (runtime/cgo): some runtime services behave differently there
// (syscall.AllThreadsSyscall is refused with ENOTSUP, threads are created through pthread_create). The C import lives
// in its own package because this one has a Go assembly file.

import "verif/harness/cgolink"

func init() { cgoLinked = cgolink.Linked() }
