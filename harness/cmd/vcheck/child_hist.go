package main

import (
	"bufio"
	"bytes"
	"context"
	"crypto/sha256"
	"encoding/hex"
	"encoding/json"
	"fmt"
	"io"
	"os"
	"os/exec"
	"path/filepath"
	"runtime"
	"sort"
	"strconv"
	"strings"
	"sync"
	"sync/atomic"
	"syscall"
	"time"
	"unsafe"

	seccomp "github.com/elastic/go-seccomp-bpf"

	"verif/harness/engine"
)

func init() { childCmds["hist"] = childHist }

type probeEv struct {
	Nr   uint32    `json:"nr"`
	Args [6]uint64 `json:"args"`
	Kill bool      `json:"kill,omitempty"` // expected to terminate the process: announced before it is issued
}

type histOp struct {
	Op     string          `json:"op"` // load | supported | state | probe
	T      int             `json:"t"`
	Kind   string          `json:"kind,omitempty"`
	Policy *engine.PolJSON `json:"policy,omitempty"`
	Flags  uint32          `json:"flags"`
	NNP    bool            `json:"nnp"`
	Events []probeEv       `json:"events,omitempty"`
	Staged bool            `json:"staged,omitempty"` // the policy value is first assembled / dumped in an earlier shape, then completed, then loaded
	// loadpair: thread T loads Policy and is held at the seccomp(2) seam (no_new_privs set, sock_fprog built) while thread
	// T2 performs a complete LoadFilter of Policy2 (Flags2/NNP2); then T is released
	T2      int             `json:"t2,omitempty"`
	Policy2 *engine.PolJSON `json:"policy2,omitempty"`
	Flags2  uint32          `json:"flags2,omitempty"`
	NNP2    bool            `json:"nnp2,omitempty"`
}

type histScript struct {
	Threads int      `json:"threads"`
	Ops     []histOp `json:"ops"`
}

type seamCall struct {
	Tid     int    `json:"tid"`
	Op      uint64 `json:"op"`
	Flags   uint64 `json:"flags"`
	Len     int    `json:"len"`
	Hash    string `json:"hash"`
	NNPSeam int    `json:"nnp_at_seam"`
	// for the call that was held at the seam: length and digest of the sock_fprog when it was released
	HeldLen  int    `json:"held_len,omitempty"`
	HeldHash string `json:"held_hash,omitempty"`
	Held     bool   `json:"held,omitempty"`
}

type threadObs struct {
	Tid     int    `json:"tid"`
	Role    string `json:"role"`
	NNP     int    `json:"nnp"`
	Seccomp int    `json:"seccomp"`
	Filters int    `json:"filters"`
}

type histResult struct {
	Op       string      `json:"op"`
	T        int         `json:"t"`
	Tid      int         `json:"tid,omitempty"`
	Err      *string     `json:"err"`
	Bool     *bool       `json:"bool,omitempty"`
	Seam     []seamCall  `json:"seam,omitempty"`
	State    []threadObs `json:"state,omitempty"`
	Errnos   []int       `json:"errnos,omitempty"`
	Compiled string      `json:"compiled_hash,omitempty"`
	CompLen  int         `json:"compiled_len,omitempty"`
	Err2     *string     `json:"err2,omitempty"` // loadpair: result of the second thread's load
	Tid2     int         `json:"tid2,omitempty"`
	Reached  bool        `json:"reached_seam,omitempty"`
}

// safeLoad is LoadFilter with a panic turned into a marked error: the child goes on reporting, and the parent checks treat
// the mark as what it is - a load that neither returned nil nor an error.
const panicMark = "PANIC-IN-LOADFILTER: "

func safeLoad(f seccomp.Filter) (err error) {
	defer func() {
		if r := recover(); r != nil {
			err = fmt.Errorf("%s%v", panicMark, r)
		}
	}()
	return seccomp.LoadFilter(f)
}

// loadPanic returns the panic message if one of the results carries the mark.
func loadPanic(rs []histResult) string {
	for _, r := range rs {
		for _, e := range []*string{r.Err, r.Err2} {
			if e != nil && strings.Contains(*e, panicMark) {
				return *e
			}
		}
	}
	return ""
}

func gettid() int { r, _, _ := syscall.RawSyscall(syscall.SYS_GETTID, 0, 0, 0); return int(r) }

func kindPolicy(kind string) *seccomp.Policy {
	mk := func(name string) *seccomp.Policy {
		return &seccomp.Policy{DefaultAction: seccomp.ActionAllow, Syscalls: []seccomp.SyscallGroup{{Action: seccomp.ActionErrno, Names: []string{name}}}}
	}
	switch kind {
	case "A", "badflag":
		return mk("getppid")
	case "B":
		return mk("getuid")
	case "denysec":
		return mk("seccomp")
	case "invalid":
		return mk("no_such_syscall")
	case "invalid-arg6":
		return &seccomp.Policy{DefaultAction: seccomp.ActionAllow, Syscalls: []seccomp.SyscallGroup{{Action: seccomp.ActionErrno, NamesWithCondtions: []seccomp.NameWithConditions{{Name: "getppid", Conditions: seccomp.ArgumentConditions{{Argument: 6, Operation: seccomp.Equal, Value: 1}}}}}}}
	case "invalid-emptyconds":
		return &seccomp.Policy{DefaultAction: seccomp.ActionAllow, Syscalls: []seccomp.SyscallGroup{{Action: seccomp.ActionErrno, NamesWithCondtions: []seccomp.NameWithConditions{{Name: "getppid", Conditions: seccomp.ArgumentConditions{}}}}}}
	case "perm-allowgroup":
		return &seccomp.Policy{DefaultAction: seccomp.ActionAllow, Syscalls: []seccomp.SyscallGroup{{Action: seccomp.ActionAllow, Names: []string{"getppid"}}}}
	case "perm-twoallow":
		return &seccomp.Policy{DefaultAction: seccomp.ActionAllow, Syscalls: []seccomp.SyscallGroup{{Action: seccomp.ActionAllow, Names: []string{"getppid"}}, {Action: seccomp.ActionAllow, Names: []string{"getuid", "getsid"}}}}
	case "perm-emptydeny":
		return &seccomp.Policy{DefaultAction: seccomp.ActionAllow, Syscalls: []seccomp.SyscallGroup{{Action: seccomp.ActionErrno}}}
	case "perm-log":
		return &seccomp.Policy{DefaultAction: seccomp.ActionLog, Syscalls: []seccomp.SyscallGroup{{Action: seccomp.ActionLog, Names: []string{"getppid"}}}}
	case "denystrict", "denystrict-enosys", "denyaux":
		// environments for Supported(): seccomp(2) is refused for strict mode only (operation 0; EPERM or ENOSYS), or for
		// every operation above SET_MODE_FILTER - filter mode itself works
		act, c := seccomp.ActionErrno, seccomp.Condition{Argument: 0, Operation: seccomp.Equal, Value: 0}
		if kind == "denyaux" {
			c = seccomp.Condition{Argument: 0, Operation: seccomp.GreaterThan, Value: 1}
		}
		if kind == "denystrict-enosys" {
			act = seccomp.Action(0x00050000 | 38)
		}
		return &seccomp.Policy{DefaultAction: seccomp.ActionAllow, Syscalls: []seccomp.SyscallGroup{{Action: act, NamesWithCondtions: []seccomp.NameWithConditions{{Name: "seccomp", Conditions: seccomp.ArgumentConditions{c}}}}}}
	case "actions":
		// every action the library knows, as default and group actions
		return &seccomp.Policy{DefaultAction: seccomp.ActionKillProcess, Syscalls: []seccomp.SyscallGroup{
			{Action: seccomp.ActionLog, Names: []string{"getppid"}}, {Action: seccomp.ActionTrap, Names: []string{"getuid"}},
			{Action: seccomp.ActionErrno, Names: []string{"getsid"}}, {Action: seccomp.ActionTrace, Names: []string{"getgid"}},
			{Action: seccomp.ActionKillThread, Names: []string{"getpgid"}}, {Action: seccomp.ActionAllow, Names: []string{"read", "write"}},
			{Action: seccomp.ActionKillProcess, NamesWithCondtions: []seccomp.NameWithConditions{{Name: "getpriority", Conditions: seccomp.ArgumentConditions{{Argument: 1, Operation: seccomp.GreaterThan, Value: 1 << 33}}}}}}}
	case "huge":
		// ~3.7k instructions, allows everything the probes and the runtime need (errno only for getsid with odd arguments)
		g := seccomp.SyscallGroup{Action: seccomp.ActionErrno}
		for i := 0; i < 930; i++ {
			g.NamesWithCondtions = append(g.NamesWithCondtions, seccomp.NameWithConditions{Name: "getsid", Conditions: seccomp.ArgumentConditions{{Argument: 0, Operation: seccomp.Equal, Value: uint64(i) + 1<<40}}})
		}
		return &seccomp.Policy{DefaultAction: seccomp.ActionAllow, Syscalls: []seccomp.SyscallGroup{g}}
	case "oversize":
		g := seccomp.SyscallGroup{Action: seccomp.ActionErrno}
		for i := 0; i < 1100; i++ {
			g.NamesWithCondtions = append(g.NamesWithCondtions, seccomp.NameWithConditions{Name: "getppid", Conditions: seccomp.ArgumentConditions{{Argument: 0, Operation: seccomp.Equal, Value: uint64(i) + 1<<40}}})
		}
		return &seccomp.Policy{DefaultAction: seccomp.ActionAllow, Syscalls: []seccomp.SyscallGroup{g}}
	}
	return nil
}

func hashSock(f []syscall.SockFilter) string {
	h := sha256.New()
	var b [8]byte
	for _, x := range f {
		b[0], b[1], b[2], b[3] = byte(x.Code), byte(x.Code>>8), x.Jt, x.Jf
		b[4], b[5], b[6], b[7] = byte(x.K), byte(x.K>>8), byte(x.K>>16), byte(x.K>>24)
		h.Write(b[:])
	}
	return hex.EncodeToString(h.Sum(nil)[:12])
}

func readThreadStates(roles map[int]string) []threadObs {
	ents, _ := os.ReadDir("/proc/self/task")
	var out []threadObs
	for _, e := range ents {
		tid, _ := strconv.Atoi(e.Name())
		b, err := os.ReadFile(filepath.Join("/proc/self/task", e.Name(), "status"))
		if err != nil {
			continue // thread exited meanwhile
		}
		o := threadObs{Tid: tid, Role: roles[tid], NNP: -1, Seccomp: -1, Filters: -1}
		if o.Role == "" {
			o.Role = "other"
		}
		for _, l := range strings.Split(string(b), "\n") {
			f := strings.Fields(l)
			if len(f) < 2 {
				continue
			}
			switch f[0] {
			case "NoNewPrivs:":
				o.NNP, _ = strconv.Atoi(f[1])
			case "Seccomp:":
				o.Seccomp, _ = strconv.Atoi(f[1])
			case "Seccomp_filters:":
				o.Filters, _ = strconv.Atoi(f[1])
			}
		}
		out = append(out, o)
	}
	sort.Slice(out, func(i, j int) bool { return out[i].Tid < out[j].Tid })
	return out
}

// childHist executes a scripted history of loads / probes on dedicated OS threads and prints one JSON line per step.
func childHist(args []string) {
	var sc histScript
	if err := json.NewDecoder(bufio.NewReader(os.Stdin)).Decode(&sc); err != nil {
		fmt.Fprintln(os.Stderr, "bad script:", err)
		os.Exit(2)
	}
	w := bufio.NewWriter(os.Stdout)
	emit := func(r histResult) {
		b, _ := json.Marshal(r)
		w.Write(b)
		w.WriteByte('\n')
		w.Flush()
	}
	type worker struct {
		ch  chan func()
		tid int
	}
	workers := make([]*worker, sc.Threads)
	roles := map[int]string{}
	var wg sync.WaitGroup
	for i := range workers {
		wk := &worker{ch: make(chan func())}
		workers[i] = wk
		wg.Add(1)
		go func() {
			runtime.LockOSThread()
			wk.tid = gettid()
			wg.Done()
			for f := range wk.ch {
				f()
			}
		}()
	}
	wg.Wait()
	for i, wk := range workers {
		roles[wk.tid] = fmt.Sprintf("T%d", i)
	}
	var seamMu sync.Mutex
	var seams []seamCall
	var holdTid int
	var holdArmed int32
	var atSeam, release chan struct{}
	seccomp.VerifSeccompSeam = func(op uintptr, flags seccomp.FilterFlag, uargs unsafe.Pointer) {
		c := seamCall{Tid: gettid(), Op: uint64(op), Flags: uint64(flags), Len: -1}
		r, _, _ := syscall.RawSyscall6(syscall.SYS_PRCTL, prGetNoNewPrivs, 0, 0, 0, 0, 0)
		c.NNPSeam = int(r)
		if op == seccompSetModeFilt && uargs != nil {
			fp := (*syscall.SockFprog)(uargs)
			c.Len = int(fp.Len)
			if fp.Filter != nil && fp.Len > 0 {
				c.Hash = hashSock(unsafe.Slice(fp.Filter, int(fp.Len)))
			}
		}
		if op == seccompSetModeFilt && holdTid != 0 && c.Tid == holdTid && atomic.CompareAndSwapInt32(&holdArmed, 1, 0) {
			close(atSeam)
			<-release
			c.Held = true
			if uargs != nil {
				fp := (*syscall.SockFprog)(uargs)
				c.HeldLen = int(fp.Len)
				if fp.Filter != nil && fp.Len > 0 {
					c.HeldHash = hashSock(unsafe.Slice(fp.Filter, int(fp.Len)))
				}
			}
		}
		seamMu.Lock()
		seams = append(seams, c)
		seamMu.Unlock()
	}
	run := func(t int, f func()) {
		done := make(chan struct{})
		workers[t].ch <- func() { f(); close(done) }
		<-done
	}
	for _, op := range sc.Ops {
		op := op
		res := histResult{Op: op.Op, T: op.T}
		switch op.Op {
		case "load":
			var pol *seccomp.Policy
			if op.Policy != nil {
				_, pol = engine.FromJSON(*op.Policy)
			} else {
				pol = kindPolicy(op.Kind)
			}
			// what the compiler produces for an equal policy, computed before the load
			cp := *pol
			if insts, err := cp.Assemble(); err == nil {
				if raw, err := engine.Raw(insts); err == nil {
					sf := make([]syscall.SockFilter, len(raw))
					for i, r := range raw {
						sf[i] = syscall.SockFilter{Code: r.Op, Jt: r.Jt, Jf: r.Jf, K: r.K}
					}
					res.Compiled, res.CompLen = hashSock(sf), len(sf)
				}
			}
			if op.Staged {
				// the same policy VALUE is used in an earlier shape first (one group less, another default action): whatever the
				// library remembers inside the value must not survive the modification
				staged := *pol
				final := pol.Syscalls
				if len(final) > 1 {
					staged.Syscalls = final[:len(final)-1]
				}
				if staged.DefaultAction == seccomp.ActionAllow {
					staged.DefaultAction = seccomp.ActionLog
				} else {
					staged.DefaultAction = seccomp.ActionAllow
				}
				staged.Assemble()
				staged.Dump(io.Discard)
				staged.Syscalls = final
				staged.DefaultAction = pol.DefaultAction
				pol = &staged
			}
			seams = nil
			run(op.T, func() {
				res.Tid = gettid()
				err := safeLoad(seccomp.Filter{NoNewPrivs: op.NNP, Flag: seccomp.FilterFlag(op.Flags), Policy: *pol})
				if err != nil {
					s := err.Error()
					res.Err = &s
				}
			})
			res.Seam = append(res.Seam, seams...)
		case "loadpair":
			_, polA := engine.FromJSON(*op.Policy)
			_, polB := engine.FromJSON(*op.Policy2)
			seams = nil
			atSeam, release = make(chan struct{}), make(chan struct{})
			holdTid = workers[op.T].tid
			atomic.StoreInt32(&holdArmed, 1)
			doneA := make(chan struct{})
			workers[op.T].ch <- func() {
				res.Tid = gettid()
				if err := safeLoad(seccomp.Filter{NoNewPrivs: op.NNP, Flag: seccomp.FilterFlag(op.Flags), Policy: *polA}); err != nil {
					s := err.Error()
					res.Err = &s
				}
				close(doneA)
			}
			select {
			case <-atSeam:
				res.Reached = true
			case <-doneA: // failed before it got there
			}
			run(op.T2, func() {
				res.Tid2 = gettid()
				if err := safeLoad(seccomp.Filter{NoNewPrivs: op.NNP2, Flag: seccomp.FilterFlag(op.Flags2), Policy: *polB}); err != nil {
					s := err.Error()
					res.Err2 = &s
				}
			})
			atomic.StoreInt32(&holdArmed, 0)
			close(release)
			<-doneA
			holdTid = 0
			seamMu.Lock()
			res.Seam = append(res.Seam, seams...)
			seamMu.Unlock()
		case "compile":
			// compilation only (no load), on thread T: what Assemble returns in the process state the history has reached
			seams = nil
			run(op.T, func() {
				res.Tid = gettid()
				cp := *kindPolicy(op.Kind)
				insts, err := cp.Assemble()
				if err != nil {
					s := err.Error()
					res.Err = &s
					return
				}
				if raw, err := engine.Raw(insts); err == nil {
					sf := make([]syscall.SockFilter, len(raw))
					for i, r := range raw {
						sf[i] = syscall.SockFilter{Code: r.Op, Jt: r.Jt, Jf: r.Jf, K: r.K}
					}
					res.Compiled, res.CompLen = hashSock(sf), len(sf)
				}
			})
			res.Seam = append(res.Seam, seams...)
		case "supported":
			seams = nil
			run(op.T, func() {
				res.Tid = gettid()
				b := seccomp.Supported()
				res.Bool = &b
			})
			res.Seam = append(res.Seam, seams...)
		case "state":
			res.State = readThreadStates(roles)
		case "probe":
			run(op.T, func() {
				res.Tid = gettid()
				for i, ev := range op.Events {
					if ev.Kill {
						emit(histResult{Op: "kill-next", T: i, Errnos: res.Errnos})
					}
					_, _, e := syscall.RawSyscall6(uintptr(ev.Nr), uintptr(ev.Args[0]), uintptr(ev.Args[1]), uintptr(ev.Args[2]), uintptr(ev.Args[3]), uintptr(ev.Args[4]), uintptr(ev.Args[5]))
					res.Errnos = append(res.Errnos, int(e))
				}
			})
		default:
			fmt.Fprintln(os.Stderr, "unknown op", op.Op)
			os.Exit(2)
		}
		emit(res)
	}
	w.Flush()
	os.Exit(0)
}

// runHist runs a script in a fresh child (optionally as uid/gid 65534) and returns the result lines.
type histRun struct {
	Results  []histResult
	Signal   syscall.Signal
	ExitCode int
	Stderr   string
	TimedOut bool
}

// childTimeouts counts children that had to be killed after their deadline. Once a dozen have hung, the code under
// test evidently blocks; further children are not started (the check reports an incomplete run instead of taking hours).
var childTimeouts int64

func tooManyHung() bool { return atomic.LoadInt64(&childTimeouts) > 12 }

func runHist(sc *histScript, unpriv bool, wrapper ...string) *histRun {
	if tooManyHung() {
		return &histRun{TimedOut: true, Stderr: "not started: too many children hung before"}
	}
	self, _ := os.Executable()
	if unpriv {
		self = publicSelf()
	}
	in, _ := json.Marshal(sc)
	cctx, cancel := context.WithTimeout(context.Background(), 25*time.Second)
	defer cancel()
	argv := append(append([]string{}, wrapper...), self, "child", "hist")
	cmd := exec.CommandContext(cctx, argv[0], argv[1:]...)
	cmd.Stdin = bytes.NewReader(in)
	var stdout, stderr bytes.Buffer
	cmd.Stdout, cmd.Stderr = &stdout, &stderr
	cmd.SysProcAttr = &syscall.SysProcAttr{Pdeathsig: syscall.SIGKILL}
	if unpriv {
		cmd.SysProcAttr.Credential = &syscall.Credential{Uid: 65534, Gid: 65534}
	}
	err := cmd.Run()
	hr := &histRun{Stderr: stderr.String()}
	if cctx.Err() != nil {
		hr.TimedOut = true
		atomic.AddInt64(&childTimeouts, 1)
	}
	if ee, ok := err.(*exec.ExitError); ok {
		if ws, ok := ee.Sys().(syscall.WaitStatus); ok {
			if ws.Signaled() {
				hr.Signal = ws.Signal()
			}
			hr.ExitCode = ws.ExitStatus()
		}
	} else if err != nil {
		hr.ExitCode = -1
		hr.Stderr += err.Error()
	}
	scn := bufio.NewScanner(&stdout)
	scn.Buffer(make([]byte, 1<<20), 1<<26)
	for scn.Scan() {
		var r histResult
		if json.Unmarshal(scn.Bytes(), &r) == nil {
			hr.Results = append(hr.Results, r)
		}
	}
	return hr
}
