package main

import (
	"fmt"
	"os"
)

var childCmds = map[string]func(args []string){}

func childMain(args []string) {
	if len(args) == 0 {
		os.Exit(2)
	}
	f, ok := childCmds[args[0]]
	if !ok {
		fmt.Fprintln(os.Stderr, "unknown child command", args[0])
		os.Exit(2)
	}
	f(args[1:])
}
