package main

import (
	"bufio"
	"encoding/json"
	"fmt"
	"os"
	"runtime"
	"strings"
	"sync"
	"sync/atomic"
	"syscall"
	"time"
	"unsafe"

	seccomp "github.com/elastic/go-seccomp-bpf"
)

func init() {
	// The main goroutine must stay on the thread-group leader for the "loader on main thread" configurations.
	if len(os.Args) > 2 && os.Args[1] == "child" && os.Getenv("VERIF_LOCK_MAIN") == "1" {
		runtime.LockOSThread()
	}
	childCmds["tsync"] = childTSync
	childCmds["nnp"] = childNNP
}

// symbolicFlags builds the flag word from the library's exported constants for the two defined bits (a wrong constant
// must show up as wrong behaviour), keeping any other bit as given.
func symbolicFlags(f uint32) seccomp.FilterFlag {
	out := seccomp.FilterFlag(f &^ 3)
	if f&1 != 0 {
		out |= seccomp.FilterFlagTSync
	}
	if f&2 != 0 {
		out |= seccomp.FilterFlagLog
	}
	return out
}

// ---------------------------------------------------------------- C10

type tsyncScript struct {
	Phases       []string `json:"phases"` // spin | sleep | read | futex | spawn
	Flags        uint32   `json:"flags"`
	LoaderMain   bool     `json:"loader_main"`
	NNP          bool     `json:"nnp"`
	Preload      bool     `json:"preload"`           // the loader first loads the same policy without thread-sync
	Divergent    bool     `json:"divergent"`         // the first phase thread installs a private filter (policy B) before the load
	PriorSync    bool     `json:"prior_sync"`        // the loader first loads another policy (B) WITH thread-sync: every thread then has one filter; the load under test follows
	Uname26      bool     `json:"uname26"`           // the child runs under the UNAME26 personality: uname(2) reports release 2.6.x
	TracerRetval uint32   `json:"seccomp_answered_by_tracer_with"` // the parent runs the child under a tracer that answers every seccomp(2) call with this positive result without executing it (how the kernel names the thread that refused a thread-sync load): nothing is installed
	BigPolicy    bool     `json:"big_policy"`        // a deny-list policy of 41 groups that compiles to more than 4096 instructions: the kernel cannot take it as one program
	LogPolicy    bool     `json:"log_policy"`        // the policy under test also has a group and a default with the LOG *action* (which has nothing to do with the log flag)
	Unpriv       bool     `json:"unprivileged"`      // the child runs as uid 65534: without no_new_privs the kernel refuses (EACCES), and a nil result is only acceptable if every thread is covered
	OuterDenyAux bool     `json:"outer_deny_aux"`    // the process runs under a filter that answers EPERM to every seccomp(2) operation other than SET_MODE_STRICT / SET_MODE_FILTER (support probes such as GET_ACTION_AVAIL fail, loads work)
	OuterEINVAL  uint32   `json:"outer_einval_mask"` // the process runs under a filter that answers EINVAL to seccomp(SET_MODE_FILTER, flags, ..) whenever flags has a bit of this mask (a kernel that does not know those flag bits yet)
	OuterENOSYS  bool     `json:"outer_enosys"`      // the whole process already runs under a filter that answers ENOSYS to seccomp(2) (as if the kernel lacked it)
	ExeName      string   `json:"exe_name"`          // the child is started under this executable name (what /proc/<pid>/stat and comm show), e.g. one with blanks and parentheses
}

type tsyncThread struct {
	Phase       string `json:"phase"`
	Tid         int    `json:"tid"`
	PhaseSeen   string `json:"phase_seen"` // what /proc showed right before the load
	ProbeErrno  int    `json:"probe_errno"`
	Seccomp     int    `json:"seccomp"`
	Filters     int    `json:"filters"`
	BornAfter   bool   `json:"born_after"`
	ProbeBefore int    `json:"probe_errno_before"`
	NNP         int    `json:"nnp"`
	NNPBefore   int    `json:"nnp_before"`
}

type tsyncReport struct {
	Err       *string       `json:"err"`
	Seam      []seamCall    `json:"seam"`
	LoaderTid int           `json:"loader_tid"`
	Pid       int           `json:"pid"`
	Threads   []tsyncThread `json:"threads"`
	Scan      []threadObs   `json:"scan"`
	Spawned   int64         `json:"threads_spawned_during_load"`
}

func selfNNP() int {
	r, _, _ := syscall.RawSyscall6(syscall.SYS_PRCTL, prGetNoNewPrivs, 0, 0, 0, 0, 0)
	return int(r)
}

func selfStatus() (sec, filt int) {
	b, _ := os.ReadFile("/proc/thread-self/status")
	sec, filt = -1, -1
	for _, l := range strings.Split(string(b), "\n") {
		f := strings.Fields(l)
		if len(f) >= 2 {
			switch f[0] {
			case "Seccomp:":
				fmt.Sscan(f[1], &sec)
			case "Seccomp_filters:":
				fmt.Sscan(f[1], &filt)
			}
		}
	}
	return
}

func procPhase(tid int) string {
	st, _ := os.ReadFile(fmt.Sprintf("/proc/self/task/%d/stat", tid))
	sy, _ := os.ReadFile(fmt.Sprintf("/proc/self/task/%d/syscall", tid))
	state := "?"
	if i := strings.LastIndexByte(string(st), ')'); i >= 0 && len(st) > i+2 {
		state = string(st[i+2 : i+3])
	}
	f := strings.Fields(string(sy))
	nr := ""
	if len(f) > 0 {
		nr = f[0]
	}
	return state + "/" + nr
}

func probeGetppid() int {
	_, _, e := syscall.RawSyscall6(110, 11, 22, 33, 44, 55, 66)
	return int(e)
}

func childTSync(args []string) {
	var sc tsyncScript
	if err := json.NewDecoder(bufio.NewReader(os.Stdin)).Decode(&sc); err != nil {
		os.Exit(2)
	}
	rep := tsyncReport{Pid: os.Getpid()}
	var loaded int32
	var spawned int64
	n := len(sc.Phases)
	ths := make([]tsyncThread, n)
	var started, finished sync.WaitGroup
	pipes := make([][2]int, n)
	futexWords := make([]int32, n)
	for i, ph := range sc.Phases {
		i, ph := i, ph
		ths[i].Phase = ph
		if ph == "read" {
			var p [2]int
			syscall.Pipe(p[:])
			pipes[i] = p
		}
		started.Add(1)
		finished.Add(1)
		go func() {
			runtime.LockOSThread()
			ths[i].Tid = gettid()
			ths[i].ProbeBefore = probeGetppid()
			ths[i].NNPBefore = selfNNP()
			if sc.Divergent && i == 0 {
				safeLoad(seccomp.Filter{NoNewPrivs: true, Flag: 0, Policy: *kindPolicy("B")})
			}
			started.Done()
			switch ph {
			case "spin":
				for atomic.LoadInt32(&loaded) == 0 {
				}
			case "sleep":
				// blocking phases use syscall.Syscall (not RawSyscall) so that the Go scheduler releases the P while the
				// thread is blocked; otherwise at most GOMAXPROCS threads could ever be in a phase
				for atomic.LoadInt32(&loaded) == 0 {
					ts := syscall.Timespec{Nsec: 20e6}
					syscall.Syscall(syscall.SYS_NANOSLEEP, uintptr(unsafe.Pointer(&ts)), 0, 0)
				}
			case "read":
				var b [1]byte
				for {
					n, _, e := syscall.Syscall(syscall.SYS_READ, uintptr(pipes[i][0]), uintptr(unsafe.Pointer(&b[0])), 1)
					if e != syscall.EINTR && (n == 1 || e != 0) {
						break
					}
				}
			case "futex":
				for atomic.LoadInt32(&futexWords[i]) == 0 {
					syscall.Syscall6(syscall.SYS_FUTEX, uintptr(unsafe.Pointer(&futexWords[i])), 0 /*FUTEX_WAIT*/, 0, 0, 0, 0)
				}
			case "spawn":
				for atomic.LoadInt32(&loaded) == 0 {
					done := make(chan struct{})
					go func() {
						runtime.LockOSThread() // never unlocked: the thread exits with the goroutine
						atomic.AddInt64(&spawned, 1)
						close(done)
					}()
					<-done
				}
			}
			// from here on every syscall begins after the load returned
			for atomic.LoadInt32(&loaded) == 0 {
				runtime.Gosched()
			}
			ths[i].ProbeErrno = probeGetppid()
			ths[i].Seccomp, ths[i].Filters = selfStatus()
			ths[i].NNP = selfNNP()
			finished.Done()
		}()
	}
	started.Wait()
	if sc.OuterDenyAux {
		// ld nr; jeq seccomp ? : allow; ld args[0]; jgt 1 -> ret ERRNO|EPERM; ret ALLOW
		outer := rawProg{{0x20, 0, 0, 0}, {0x15, 0, 3, 317}, {0x20, 0, 0, 16}, {0x25, 0, 1, 1}, {0x06, 0, 0, 0x00050001}, {0x06, 0, 0, 0x7fff0000}}
		syscall.RawSyscall(syscall.SYS_PRCTL, prSetNoNewPrivs, 1, 0)
		if e := rawSeccompLoad(outer, len(outer), 1); e != 0 {
			s := "outer filter could not be installed: " + e.Error()
			rep.Err = &s
		}
	}
	if sc.OuterEINVAL != 0 {
		// ld nr; jeq seccomp ? : allow; ld args[0]; jeq SET_MODE_FILTER ? : allow; ld args[1]; jset mask -> ret ERRNO|EINVAL; ret ALLOW
		outer := rawProg{{0x20, 0, 0, 0}, {0x15, 0, 5, 317}, {0x20, 0, 0, 16}, {0x15, 0, 3, 1}, {0x20, 0, 0, 24}, {0x45, 0, 1, sc.OuterEINVAL}, {0x06, 0, 0, 0x00050016}, {0x06, 0, 0, 0x7fff0000}}
		syscall.RawSyscall(syscall.SYS_PRCTL, prSetNoNewPrivs, 1, 0)
		if e := rawSeccompLoad(outer, len(outer), 1); e != 0 {
			s := "outer filter could not be installed: " + e.Error()
			rep.Err = &s
		}
	}
	if sc.OuterENOSYS {
		// ld nr; jeq 317 (seccomp) -> ret ERRNO|ENOSYS; ret ALLOW   -- installed on every thread through the raw syscall
		outer := rawProg{{0x20, 0, 0, 0}, {0x15, 0, 1, 317}, {0x06, 0, 0, 0x00050026}, {0x06, 0, 0, 0x7fff0000}}
		syscall.RawSyscall(syscall.SYS_PRCTL, prSetNoNewPrivs, 1, 0)
		if e := rawSeccompLoad(outer, len(outer), 1); e != 0 {
			s := "outer filter could not be installed: " + e.Error()
			rep.Err = &s
		}
	}
	// let the threads reach their phase and record what /proc shows
	deadline := time.Now().Add(2 * time.Second)
	for {
		ok := true
		for i, ph := range sc.Phases {
			s := procPhase(ths[i].Tid)
			ths[i].PhaseSeen = s
			switch ph {
			case "sleep":
				ok = ok && strings.HasSuffix(s, "/35")
			case "read":
				ok = ok && s == "S/0"
			case "futex":
				ok = ok && s == "S/202"
			}
		}
		if ok || time.Now().After(deadline) {
			break
		}
		time.Sleep(time.Millisecond)
	}
	var seamMu sync.Mutex
	seccomp.VerifSeccompSeam = func(op uintptr, flags seccomp.FilterFlag, uargs unsafe.Pointer) {
		seamMu.Lock()
		rep.Seam = append(rep.Seam, seamCall{Tid: gettid(), Op: uint64(op), Flags: uint64(flags)})
		seamMu.Unlock()
	}
	load := func() {
		rep.LoaderTid = gettid()
		if sc.PriorSync {
			if err := safeLoad(seccomp.Filter{NoNewPrivs: sc.NNP, Flag: seccomp.FilterFlagTSync, Policy: *kindPolicy("B")}); err != nil {
				s := "prior thread-sync load: " + err.Error()
				rep.Err = &s
			}
			seamMu.Lock()
			rep.Seam = nil
			seamMu.Unlock()
		}
		if sc.Preload {
			if err := safeLoad(seccomp.Filter{NoNewPrivs: sc.NNP, Flag: 0, Policy: *kindPolicy("A")}); err != nil {
				s := "preload: " + err.Error()
				rep.Err = &s
			}
			rep.Seam = nil
		}
		pol := kindPolicy("A")
		if sc.LogPolicy {
			pol = &seccomp.Policy{DefaultAction: seccomp.ActionLog, Syscalls: []seccomp.SyscallGroup{{Action: seccomp.ActionErrno, Names: []string{"getppid"}}, {Action: seccomp.ActionLog, Names: []string{"getuid"}}}}
		}
		if sc.BigPolicy {
			pol = &seccomp.Policy{DefaultAction: seccomp.ActionAllow}
			for g := 0; g < 40; g++ {
				grp := seccomp.SyscallGroup{Action: seccomp.ActionErrno}
				for i := 0; i < 30; i++ {
					grp.NamesWithCondtions = append(grp.NamesWithCondtions, seccomp.NameWithConditions{Name: "getsid", Conditions: seccomp.ArgumentConditions{{Argument: uint32(i % 6), Operation: seccomp.Equal, Value: uint64(g*30+i) + 1<<40}}})
				}
				pol.Syscalls = append(pol.Syscalls, grp)
			}
			pol.Syscalls = append(pol.Syscalls, seccomp.SyscallGroup{Action: seccomp.ActionErrno, Names: []string{"getppid"}})
		}
		err := safeLoad(seccomp.Filter{NoNewPrivs: sc.NNP, Flag: symbolicFlags(sc.Flags), Policy: *pol})
		atomic.StoreInt32(&loaded, 1)
		if err != nil {
			s := err.Error()
			rep.Err = &s
		}
	}
	if sc.LoaderMain {
		load() // main goroutine is locked to the thread-group leader (VERIF_LOCK_MAIN)
	} else {
		done := make(chan struct{})
		go func() { runtime.LockOSThread(); load(); close(done) }()
		<-done
	}
	// wake the blocked ones
	for i, ph := range sc.Phases {
		switch ph {
		case "read":
			syscall.Write(pipes[i][1], []byte{1})
		case "futex":
			atomic.StoreInt32(&futexWords[i], 1)
			syscall.Syscall6(syscall.SYS_FUTEX, uintptr(unsafe.Pointer(&futexWords[i])), 1 /*FUTEX_WAKE*/, 1, 0, 0, 0)
		}
	}
	finished.Wait()
	// threads born after the load
	for k := 0; k < 3; k++ {
		var t tsyncThread
		done := make(chan struct{})
		go func() {
			runtime.LockOSThread()
			t = tsyncThread{Phase: "born-after", Tid: gettid(), BornAfter: true, ProbeErrno: probeGetppid()}
			t.Seccomp, t.Filters = selfStatus()
			close(done)
		}()
		<-done
		ths = append(ths, t)
	}
	rep.Threads = ths
	rep.Spawned = atomic.LoadInt64(&spawned)
	roles := map[int]string{rep.LoaderTid: "loader"}
	for i, t := range ths {
		roles[t.Tid] = fmt.Sprintf("%s#%d", t.Phase, i)
	}
	rep.Scan = readThreadStates(roles)
	b, _ := json.Marshal(rep)
	os.Stdout.Write(append(b, '\n'))
	os.Exit(0)
}

// ---------------------------------------------------------------- C11

type nnpScript struct {
	NNP        bool   `json:"nnp"`
	Flags      uint32 `json:"flags"`
	Choice     string `json:"choice"`  // stay | move (at the seccomp seam) | prctl-delay (a tracer holds prctl(2): the goroutine may resume elsewhere)
	IdleMs     int    `json:"idle_ms"` // number of idle runtime threads to create before the load (move-old) or 0
	LoaderMain bool   `json:"loader_main"`
	WireIdle   int    `json:"wire_idle"`  // wire this many goroutines to threads first, so that no idle thread is left (move-new)
	Policy     string `json:"policy_kind"` // "" = the one-name deny policy; otherwise a kind of kindPolicy (policies that restrict nothing)
	PreNNP     string `json:"pre_nnp"`    // "leader": before the load the thread-group leader (not the loader's thread) sets no_new_privs for itself
	DenyPrctl  bool   `json:"deny_prctl"` // the process already runs under a filter that answers EPERM to prctl(2) (as container profiles do)
}

type nnpReport struct {
	Err              *string     `json:"err"`
	Uid              int         `json:"uid"`
	PrctlTid         int         `json:"tid_at_load_start"`
	SeamTidBefore    int         `json:"seam_tid_before_move"`
	SeamTid          int         `json:"seam_tid"`
	Moved            bool        `json:"moved"`
	MoveImpossible   bool        `json:"migration_impossible"`
	PreNNPDone       bool        `json:"pre_nnp_done"`
	CgoLinked        bool        `json:"cgo_linked"`
	ControlMoved     bool        `json:"control_moved"` // the same manoeuvre on an unpinned goroutine in this process
	TargetPreexisted bool        `json:"target_thread_preexisted"`
	NNPAtSeam        int         `json:"nnp_at_seam"`
	NNPOnStartThread int         `json:"nnp_on_start_thread_after"`
	Before           []threadObs `json:"before"`
	After            []threadObs `json:"after"`
	SeamCalls        int         `json:"seam_calls"`
	Attempts         int         `json:"helper_attempts"`
}

// tryMove tries to make the calling goroutine continue on another OS thread: a helper goroutine takes over the
// current thread (runs on it, wires itself to it, parks) so that the runtime has to resume the caller elsewhere.
// It returns a release function and the number of attempts; ok=false if the helper never got the thread
// (the caller is wired to it).
func tryMove() (moved bool, attempts int, release func()) {
	tidA := gettid()
	ready := make(chan bool)
	rel := make(chan struct{})
	var tries int32
	go func() {
		for i := 0; i < 400; i++ {
			atomic.AddInt32(&tries, 1)
			if gettid() == tidA {
				runtime.LockOSThread()
				if gettid() == tidA {
					ready <- true
					<-rel
					runtime.UnlockOSThread()
					return
				}
				runtime.UnlockOSThread()
			}
			if i%4 == 3 {
				time.Sleep(50 * time.Microsecond)
			} else {
				runtime.Gosched()
			}
		}
		ready <- false
		<-rel
	}()
	got := <-ready
	return got && gettid() != tidA, int(atomic.LoadInt32(&tries)), func() { close(rel) }
}

func childNNP(args []string) {
	var sc nnpScript
	if err := json.NewDecoder(bufio.NewReader(os.Stdin)).Decode(&sc); err != nil {
		os.Exit(2)
	}
	rep := nnpReport{Uid: os.Getuid(), NNPAtSeam: -1, NNPOnStartThread: -1, CgoLinked: cgoLinked}
	if sc.DenyPrctl {
		// ld nr; jeq 157 (prctl) -> ret ERRNO|EPERM; ret ALLOW, on every thread; needs privilege because the bit must stay 0
		outer := rawProg{{0x20, 0, 0, 0}, {0x15, 0, 1, 157}, {0x06, 0, 0, 0x00050001}, {0x06, 0, 0, 0x7fff0000}}
		if e := rawSeccompLoad(outer, len(outer), 1); e != 0 {
			s := "outer filter could not be installed: " + e.Error()
			rep.Err = &s
			b, _ := json.Marshal(rep)
			os.Stdout.Write(append(b, '\n'))
			os.Exit(0)
		}
	}
	if sc.PreNNP == "leader" && gettid() == os.Getpid() {
		// the main goroutine is wired to the thread-group leader (VERIF_LOCK_MAIN); the bit is per thread
		if _, _, e := syscall.RawSyscall6(syscall.SYS_PRCTL, prSetNoNewPrivs, 1, 0, 0, 0, 0); e == 0 {
			rep.PreNNPDone = true
		}
	}
	// optional pool of idle runtime threads that exist before the prctl
	if sc.IdleMs > 0 {
		var wg sync.WaitGroup
		for i := 0; i < sc.IdleMs; i++ {
			wg.Add(1)
			go func() {
				ts := syscall.Timespec{Nsec: 30e6}
				syscall.Syscall(syscall.SYS_NANOSLEEP, uintptr(unsafe.Pointer(&ts)), 0, 0)
				wg.Done()
			}()
		}
		wg.Wait()
	}
	if sc.Choice == "prctl-delay" {
		// the parent runs this child under a tracer that holds every prctl(2) in the kernel for a while. With one P and a
		// goroutine that never blocks, the runtime takes the P away from the thread sitting in prctl; when the call returns
		// an unpinned goroutine is queued and resumes on the thread that owns the P - another one. A goroutine wired to
		// its thread cannot move. Control: the same call from an unpinned goroutine of this process.
		runtime.GOMAXPROCS(1)
		go func() {
			for {
			}
		}()
		done := make(chan struct{})
		go func() {
			t0 := gettid()
			syscall.Syscall6(syscall.SYS_PRCTL, prGetNoNewPrivs, 0, 0, 0, 0, 0)
			rep.ControlMoved = gettid() != t0
			close(done)
		}()
		<-done
	}
	if sc.Choice == "move" {
		// control: the manoeuvre works on an unpinned goroutine of this very process
		done := make(chan struct{})
		go func() {
			m, _, release := tryMove()
			rep.ControlMoved = m
			release()
			close(done)
		}()
		<-done
	}
	for i := 0; i < sc.WireIdle; i++ {
		ok := make(chan struct{})
		go func() { runtime.LockOSThread(); close(ok); select {} }()
		<-ok
	}
	pre := map[int]bool{}
	var releases []func()
	seccomp.VerifSeccompSeam = func(op uintptr, flags seccomp.FilterFlag, uargs unsafe.Pointer) {
		rep.SeamCalls++
		rep.SeamTidBefore = gettid()
		if sc.Choice == "move" {
			m, att, release := tryMove()
			releases = append(releases, release)
			rep.Moved, rep.Attempts = m, att
			rep.MoveImpossible = !m
		}
		rep.SeamTid = gettid()
		if sc.Choice == "prctl-delay" {
			rep.Moved = rep.SeamTid != rep.PrctlTid
			rep.MoveImpossible = !rep.Moved
		}
		rep.TargetPreexisted = pre[rep.SeamTid]
		r, _, _ := syscall.RawSyscall6(syscall.SYS_PRCTL, prGetNoNewPrivs, 0, 0, 0, 0, 0)
		rep.NNPAtSeam = int(r)
	}
	load := func() {
		rep.Before = readThreadStates(nil)
		for _, t := range rep.Before {
			pre[t.Tid] = true
		}
		rep.PrctlTid = gettid()
		pk := "A"
		if sc.Policy != "" {
			pk = sc.Policy
		}
		err := safeLoad(seccomp.Filter{NoNewPrivs: sc.NNP, Flag: seccomp.FilterFlag(sc.Flags), Policy: *kindPolicy(pk)})
		if err != nil {
			s := err.Error()
			rep.Err = &s
		}
		for _, r := range releases {
			r()
		}
	}
	if sc.LoaderMain {
		load()
	} else {
		done := make(chan struct{})
		go func() { load(); close(done) }()
		<-done
	}
	rep.After = readThreadStates(nil)
	for _, t := range rep.After {
		if t.Tid == rep.PrctlTid {
			rep.NNPOnStartThread = t.NNP
		}
	}
	b, _ := json.Marshal(rep)
	os.Stdout.Write(append(b, '\n'))
	os.Exit(0)
}
