package main

import (
	"bytes"
	"context"
	"crypto/sha256"
	"encoding/hex"
	"fmt"
	"os"
	"os/exec"
	"os/user"
	"path/filepath"
	"strings"
	"sync"
	"syscall"
	"time"

	"verif/harness/evid"
)

// buildTool builds a main package (of the repository under test or of the harness) into dir.
func buildTool(dir, name, pkg string, env ...string) (string, error) {
	out := filepath.Join(dir, name)
	args := []string{"build"}
	if mf := os.Getenv("VERIF_MODFILE"); mf != "" {
		args = append(args, "-modfile="+mf)
	}
	args = append(args, "-o", out, pkg)
	cmd := exec.Command("go", args...)
	cmd.Dir = filepath.Join(evid.Root(), "harness")
	cmd.Env = append(os.Environ(), env...)
	if b, err := cmd.CombinedOutput(); err != nil {
		return "", fmt.Errorf("go build %s: %v: %s", pkg, err, b)
	}
	return out, nil
}

const fakeGoScript = `#!/bin/sh
# fake "go" for the profiler checks: "go tool objdump <binary>" prints $FAKE_LISTING,
# optionally only its first $FAKE_CUT bytes, then exits with $FAKE_EXIT or kills itself.
# With FAKE_PAUSE_AT=p and FAKE_PAUSE_FILE=f it prints the first p bytes, creates f.reached, waits until f exists and
# prints the rest (two overlapping profiler runs are scheduled by the harness this way).
if [ -n "$FAKE_PAUSE_AT" ]; then
  head -c "$FAKE_PAUSE_AT" "$FAKE_LISTING" || exit 1
  : > "$FAKE_PAUSE_FILE.reached"
  n=0; while [ ! -e "$FAKE_PAUSE_FILE" ] && [ $n -lt 3000 ]; do sleep 0.01; n=$((n+1)); done
  tail -c +$((FAKE_PAUSE_AT+1)) "$FAKE_LISTING" || exit 1
  if [ "$FAKE_KILL" = "self" ]; then kill -9 $$; fi
  if [ "$FAKE_KILL" = "parent" ]; then sleep 0.05; kill -9 $PPID; fi
  exit ${FAKE_EXIT:-0}
fi
# FAKE_IGNORE_WERR=1: a disassembler that does not check what becomes of its output (as go tool objdump: it flushes
# and ignores the result) - used only with faults that cannot hit a pipe (file size limit, full cache file system)
if [ -n "$FAKE_IGNORE_WERR" ]; then trap '' 25; cat "$FAKE_LISTING" 2>/dev/null; exit 0; fi
# a write error of its own (injected by the harness) makes it fail like any tool that checks its output
if [ -n "$FAKE_CUT" ]; then head -c "$FAKE_CUT" "$FAKE_LISTING" || exit 1; else cat "$FAKE_LISTING" || exit 1; fi
if [ "$FAKE_KILL" = "self" ]; then kill -9 $$; fi
if [ "$FAKE_KILL" = "parent" ]; then sleep 0.05; kill -9 $PPID; fi
exit ${FAKE_EXIT:-0}
`

type cmdResult struct {
	Stdout, Stderr string
	Exit           int
	Signal         syscall.Signal
	TimedOut       bool
}

func runCmd(timeout time.Duration, env []string, dir string, argv ...string) cmdResult {
	cctx, cancel := context.WithTimeout(context.Background(), timeout)
	defer cancel()
	cmd := exec.CommandContext(cctx, argv[0], argv[1:]...)
	cmd.Env = env
	cmd.Dir = dir
	var so, se bytes.Buffer
	cmd.Stdout, cmd.Stderr = &so, &se
	err := cmd.Run()
	r := cmdResult{Stdout: so.String(), Stderr: se.String()}
	if cctx.Err() != nil {
		r.TimedOut = true
	}
	if ee, ok := err.(*exec.ExitError); ok {
		if ws, ok := ee.Sys().(syscall.WaitStatus); ok {
			if ws.Signaled() {
				r.Signal = ws.Signal()
				r.Exit = 128 + int(ws.Signal())
			} else {
				r.Exit = ws.ExitStatus()
			}
		}
	} else if err != nil {
		r.Exit = -1
		r.Stderr += err.Error()
	}
	return r
}

// profilerCachePath mirrors cachedDumpFile of the profiler (base name + first 10 hex digits of sha256(abs path))
// under the home directory of the current user as os/user reports it.
func profilerCachePath(home, binary string) string {
	abs, _ := filepath.Abs(binary)
	h := sha256.Sum256([]byte(abs))
	return filepath.Join(home, ".seccomp-profiler", filepath.Base(binary)+"-"+hex.EncodeToString(h[:])[:10])
}

// profEnv: the profiler harness environment.
type profEnv struct {
	scratch  string
	profiler string
	binDir   string // contains the fake go
	home     string
	hello    map[string]string // goarch -> ELF
}

func newProfEnv(scratch string) (*profEnv, error) {
	pe := &profEnv{scratch: scratch, binDir: filepath.Join(scratch, "bin"), hello: map[string]string{}}
	os.MkdirAll(pe.binDir, 0o755)
	if err := os.WriteFile(filepath.Join(pe.binDir, "go"), []byte(fakeGoScript), 0o755); err != nil {
		return nil, err
	}
	var err error
	if pe.profiler, err = buildTool(scratch, "seccomp-profiler", "github.com/elastic/go-seccomp-bpf/cmd/seccomp-profiler"); err != nil {
		return nil, err
	}
	for _, ga := range []string{"amd64", "386"} {
		p, err := buildTool(scratch, "hello-"+ga, "./cmd/hello", "GOARCH="+ga, "GOOS=linux")
		if err != nil {
			return nil, err
		}
		pe.hello[ga] = p
	}
	// where does the profiler put its cache? (os/user decides; find out by one probing run)
	probe := filepath.Join(scratch, "probe-bin")
	copyFile(pe.hello["amd64"], probe)
	lst := filepath.Join(scratch, "probe.lst")
	os.WriteFile(lst, []byte("TEXT main.main(SB) /x.go\n"), 0o644)
	r := runCmd(60*time.Second, pe.env(lst, nil), scratch, pe.profiler, "-format", "config", probe)
	for _, l := range strings.Split(r.Stderr, "\n") {
		if i := strings.Index(l, "Objdump File: "); i >= 0 {
			f := strings.TrimSpace(l[i+len("Objdump File: "):])
			pe.home = filepath.Dir(filepath.Dir(f))
			os.Remove(f)
		}
	}
	if pe.home == "" {
		// the profiler did not say (it failed, or no longer logs the file name): the cache lives under the home directory
		// os/user reports for this uid, which is the same computation in this process
		if u, err := user.Current(); err == nil && u.HomeDir != "" {
			pe.home = u.HomeDir
			if m, _ := filepath.Glob(filepath.Join(pe.home, ".seccomp-profiler", "probe-bin-*")); m != nil {
				for _, f := range m {
					os.Remove(f)
				}
			}
		} else {
			return nil, fmt.Errorf("cannot determine the profiler's cache directory: exit=%d stderr=%s", r.Exit, r.Stderr)
		}
	}
	return pe, nil
}

func (pe *profEnv) env(listing string, extra []string) []string {
	e := []string{"PATH=" + pe.binDir + ":/usr/bin:/bin", "HOME=" + filepath.Join(pe.scratch, "home"), "FAKE_LISTING=" + listing, "USER=root"}
	return append(e, extra...)
}

func copyFile(src, dst string) error {
	b, err := os.ReadFile(src)
	if err != nil {
		return err
	}
	return os.WriteFile(dst, b, 0o755)
}

var straceOnce sync.Once
var straceOK bool

// straceWorks reports whether strace can trace a child here (it needs ptrace; some sandboxes forbid it).
func straceWorks() bool {
	straceOnce.Do(func() {
		if _, err := exec.LookPath("strace"); err != nil {
			return
		}
		r := runCmd(30*time.Second, os.Environ(), "", "strace", "-f", "-o", "/dev/null", "-e", "trace=write", "-e", "inject=write:error=EIO:when=1000", "/bin/true")
		straceOK = r.Exit == 0
	})
	return straceOK
}
