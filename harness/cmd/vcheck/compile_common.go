package main

import (
	"crypto/sha256"
	"encoding/json"
	"fmt"
	"golang.org/x/net/bpf"
	"os"
	"sync"
	"sync/atomic"

	seccomp "github.com/elastic/go-seccomp-bpf"

	"verif/harness/cbpf"
	"verif/harness/engine"
	"verif/harness/evid"
	"verif/harness/labelm"
	"verif/harness/refsem"
)

// compileRun is the shared driver of the compiler properties: it feeds policies
// of a scope through engine.CheckPolicy and books the issues of the classes the
// calling property owns.
type compileRun struct {
	ctx     *evid.Ctx
	seq     int64
	classes map[string]bool
	mu      sync.Mutex
	progs   map[[16]byte]struct{}
	decSets map[string]struct{}
	nontriv int64
	other   map[string]int64
	sampleN map[string]int
}

// installHangHandler: a call into the library that does not return within engine.HangLimit is a violation of every
// compiler property (no program is produced at all); it is recorded and the process ends, because the spinning call
// cannot be stopped.
func installHangHandler(ctx *evid.Ctx) {
	engine.OnHang = func(describe func() any) {
		var rep any
		if describe != nil {
			rep = describe()
		}
		b, _ := json.Marshal(rep)
		h := sha256.Sum256(b)
		ctx.Violation(fmt.Sprintf("%s:hang:%x", ctx.ID, h[:6]), fmt.Sprintf("a call into the compiler did not return within %v (non-terminating Assemble); the run was stopped there", engine.HangLimit), rep)
		ctx.Capped("stopped at a non-terminating call")
		os.Exit(ctx.Finish())
	}
	labelm.Watch = func(s *labelm.Spec) func() {
		tok := engine.Enter(func() any { return map[string]any{"kind": "label-program", "spec": s} })
		return func() { engine.Leave(tok) }
	}
}

func newCompileRun(ctx *evid.Ctx, classes ...string) *compileRun {
	installHangHandler(ctx)
	r := &compileRun{ctx: ctx, classes: map[string]bool{}, progs: map[[16]byte]struct{}{}, decSets: map[string]struct{}{},
		other: map[string]int64{}, sampleN: map[string]int{}}
	for _, c := range classes {
		r.classes[c] = true
	}
	return r
}

type compileReplay struct {
	Scope  string         `json:"scope"`
	Policy engine.PolJSON `json:"policy"`
	Event  *cbpf.Event    `json:"event,omitempty"`
	Got    string         `json:"got,omitempty"`
	Want   string         `json:"want,omitempty"`
	Class  string         `json:"class"`
	// how the policy value was compiled: on a value that was assembled before in an earlier shape (variant modulo 3, see
	// engine.Options) or in the explicitly given one
	Staged        bool            `json:"staged,omitempty"`
	StagedVariant int             `json:"staged_variant,omitempty"`
	Prior         *engine.PolJSON `json:"prior,omitempty"`
}

func progHash(p []cbpf.Insn) [16]byte {
	h := sha256.New()
	var b [8]byte
	for _, f := range p {
		b[0], b[1], b[2], b[3] = byte(f.Op), byte(f.Op>>8), f.Jt, f.Jf
		b[4], b[5], b[6], b[7] = byte(f.K), byte(f.K>>8), byte(f.K>>16), byte(f.K>>24)
		h.Write(b[:])
	}
	var out [16]byte
	copy(out[:], h.Sum(nil))
	return out
}

// one checks one policy; scope is a label used in keys and samples.
func (r *compileRun) one(scope string, a *refsem.Arch, p *seccomp.Policy, o engine.Options) *engine.Outcome {
	// every third policy is compiled on a policy value that was assembled in an earlier shape before (a correct compiler
	// keeps nothing inside the value; one that memoises does)
	if n := atomic.AddInt64(&r.seq, 1); n%3 == 0 && o.Prior == nil {
		o.Staged = true
		o.StagedVariant = int(n / 3)
		r.ctx.Count("policies_compiled_on_a_previously_assembled_value", 1)
	}
	out := engine.CheckPolicy(a, p, o)
	r.ctx.Count("policies", 1)
	r.ctx.Count("events", int64(out.Events))
	if out.Accepted {
		r.ctx.Count("accepted", 1)
		if out.Verdict == refsem.MustAccept {
			r.ctx.Count("acceptance_obligations_met", 1)
		}
	} else {
		r.ctx.Count("rejected", 1)
	}
	if !out.Exact {
		r.ctx.Count("partition_inexact_policies", 1)
	}
	if out.Prog != nil {
		r.mu.Lock()
		if len(r.progs) < 3000000 { // distinct programs are counted up to 3 million (memory bound); see distinct_programs_capped
			r.progs[progHash(out.Prog)] = struct{}{}
		}
		if len(out.Decisions) >= 2 {
			r.nontriv++
		}
		if len(out.Prog) > 255 {
			r.other["programs_over_255"]++
		}
		r.mu.Unlock()
		r.ctx.Count("instructions_emitted", int64(len(out.Prog)))
		if out.Hits != nil {
			r.ctx.Count("instructions_never_executed", int64(len(out.Unreached())))
		}
	}
	r.mu.Lock()
	if r.sampleN[scope] < 1 {
		r.sampleN[scope]++
		r.mu.Unlock()
		r.ctx.Sample(map[string]any{"scope": scope, "policy": engine.ToJSON(a, p, o.Big), "events_run": out.Events, "program_len": len(out.Prog), "accepted": out.Accepted})
	} else {
		r.mu.Unlock()
	}
	for _, is := range out.Issues {
		if is.Class == engine.ClsInexact {
			r.ctx.Capped("partition product capped for a policy of scope " + scope)
			continue
		}
		if !r.classes[is.Class] {
			r.mu.Lock()
			r.other["issues_of_other_properties_"+is.Class]++
			r.mu.Unlock()
			continue
		}
		pj := engine.ToJSON(a, p, o.Big)
		b, _ := json.Marshal(pj)
		evs := ""
		if is.Event != nil {
			eb, _ := json.Marshal(is.Event)
			evs = string(eb)
		}
		hh := sha256.Sum256(append(b, evs...))
		key := fmt.Sprintf("%s:%s:%s:%x", r.ctx.ID, is.Class, scope, hh[:6])
		rep := compileReplay{Scope: scope, Policy: pj, Event: is.Event, Class: is.Class, Staged: o.Staged, StagedVariant: o.StagedVariant % 4}
		if o.Prior != nil {
			pr := engine.ToJSON(a, o.Prior, o.Big)
			rep.Prior = &pr
		}
		if is.Event != nil {
			rep.Got, rep.Want = fmt.Sprintf("%#x", is.Got), fmt.Sprintf("%#x", is.Want)
		}
		r.ctx.Violation(key, is.What+" ["+scope+" "+a.Name+"]", rep)
	}
	return out
}

func (r *compileRun) finish(rule string) {
	r.mu.Lock()
	defer r.mu.Unlock()
	r.ctx.Cov["evaluations"] = r.ctx.Counter("events") + r.ctx.Counter("policies")
	r.ctx.Cov["distinct_nontrivial"] = r.nontriv
	r.ctx.Cov["distinct_programs"] = len(r.progs)
	if len(r.progs) >= 3000000 {
		r.ctx.Cov["distinct_programs_capped"] = "counting stopped at 3 000 000 distinct programs to bound memory"
	}
	r.ctx.Cov["rule"] = rule
	for k, v := range r.other {
		r.ctx.Cov[k] = v
	}
}

// replayCompile re-executes one compile-type replay file without the explorer.
func replayCompile(path string) int {
	b, err := os.ReadFile(path)
	if err != nil {
		fmt.Fprintln(os.Stderr, err)
		return 2
	}
	var f struct {
		Property string        `json:"property"`
		Key      string        `json:"key"`
		What     string        `json:"what"`
		Case     compileReplay `json:"case"`
	}
	if err := json.Unmarshal(b, &f); err != nil {
		fmt.Fprintln(os.Stderr, err)
		return 2
	}
	a, p := engine.FromJSON(f.Case.Policy)
	if a == nil {
		fmt.Fprintln(os.Stderr, "unknown arch in replay")
		return 2
	}
	fmt.Printf("replay %s (%s)\npolicy: %s\n", f.Key, f.What, mustJSON(f.Case.Policy))
	verdict, why := refsem.Valid(a, p)
	fmt.Printf("reference verdict: %v %s\n", verdict, why)
	var insts []bpf.Instruction
	var pan any
	switch {
	case f.Case.Prior != nil:
		_, prior := engine.FromJSON(*f.Case.Prior)
		fmt.Println("(compiled on a value that was assembled in the recorded earlier shape first)")
		insts, err, pan = engine.CompileAfter(a, prior, p, f.Case.Policy.Big)
	case f.Case.Staged && f.Case.StagedVariant%4 == 3 && len(p.Syscalls) > 0:
		fmt.Println("(compiled after a longer policy that shares the group array)")
		arr := make([]seccomp.SyscallGroup, len(p.Syscalls), len(p.Syscalls)+1)
		copy(arr, p.Syscalls)
		extra := seccomp.SyscallGroup{Action: seccomp.ActionKillProcess, Names: []string{a.SortedNames()[len(a.SortedNames())/2]}}
		prior := &seccomp.Policy{DefaultAction: p.DefaultAction, Syscalls: append(arr, extra)}
		final := &seccomp.Policy{DefaultAction: p.DefaultAction, Syscalls: arr}
		insts, err, pan = engine.CompileAfter(a, prior, final, f.Case.Policy.Big)
	case f.Case.Staged && f.Case.StagedVariant%4 == 2:
		fmt.Println("(compiled on a value that was assembled for another architecture first)")
		insts, err, pan = engine.CompileAfterOn(a, engine.OtherArch(a), p, p, f.Case.Policy.Big)
	case f.Case.Staged:
		fmt.Printf("(compiled on a value that was assembled in an earlier shape first, variant %d)\n", f.Case.StagedVariant%4)
		insts, err, pan = engine.CompileAfter(a, engine.EarlierShape(p, f.Case.StagedVariant%4), p, f.Case.Policy.Big)
	default:
		insts, err, pan = engine.Compile(a, p, f.Case.Policy.Big)
	}
	if pan != nil {
		fmt.Printf("Assemble PANIC: %v\n", pan)
		return 1
	}
	if err != nil {
		fmt.Printf("Assemble error: %v\n", err)
		if verdict == refsem.MustAccept {
			return 1
		}
		return 0
	}
	prog, rerr := engine.Raw(insts)
	if rerr != nil {
		fmt.Printf("bpf.Assemble error: %v\n", rerr)
		return 1
	}
	for _, l := range cbpf.Disasm(prog) {
		fmt.Println(l)
	}
	bad := false
	if verdict == refsem.MustReject {
		fmt.Println("defective policy was ACCEPTED")
		bad = true
	}
	if len(prog) <= cbpf.MaxInsns {
		if verr := cbpf.Check(prog); verr != nil {
			fmt.Println("verifier:", verr)
			bad = true
		}
	}
	if f.Case.Event != nil {
		d := f.Case.Event.Words(f.Case.Policy.Big)
		var trace []int
		got, xerr := cbpf.Run(prog, &d, nil, &trace)
		want := refsem.Decide(a, p, *f.Case.Event)
		fmt.Printf("event: %s\npath: %v\ncompiled program returns %#x (err=%v); reference says %#x\n", mustJSON(f.Case.Event), trace, got, xerr, want)
		if xerr != nil || got != want {
			bad = true
		}
	} else {
		out := engine.CheckPolicy(a, p, engine.Options{Big: f.Case.Policy.Big})
		for _, is := range out.Issues {
			fmt.Printf("issue: %s %s\n", is.Class, is.What)
			bad = true
		}
	}
	if bad {
		fmt.Println("REPRODUCED")
		return 1
	}
	fmt.Println("not reproduced (property holds on this case)")
	return 0
}

func mustJSON(v any) string { b, _ := json.Marshal(v); return string(b) }

func readJSON(path string, v any) error {
	b, err := os.ReadFile(path)
	if err != nil {
		return err
	}
	return json.Unmarshal(b, v)
}

// finishOrReplay ends a check whose replay mode is "run the (fast, deterministic) check again and look for the
// recorded key": with a replay file it prints whether that violation recurs and does not touch the evidence.
func finishOrReplay(ctx *evid.Ctx, replay string) int {
	if replay == "" {
		return ctx.Finish()
	}
	var f struct {
		Key  string `json:"key"`
		What string `json:"what"`
	}
	if err := readJSON(replay, &f); err != nil {
		fmt.Println(err)
		return 2
	}
	fmt.Printf("replay of %s\n  recorded: %s\n", f.Key, clip(f.What, 400))
	if ctx.HasKey(f.Key) {
		fmt.Println("REPRODUCED")
		return 1
	}
	fmt.Println("not reproduced (property holds on this case)")
	return 0
}

// finishReplay ends a replay run: the verdict is whether the single replayed case violates the property; the evidence
// file is not touched.
func finishReplay(ctx *evid.Ctx) int {
	if ctx.NumViolations() > 0 {
		for _, l := range ctx.Describe() {
			fmt.Println(l)
		}
		fmt.Println("REPRODUCED")
		return 1
	}
	fmt.Println("not reproduced (property holds on this case)")
	return 0
}
