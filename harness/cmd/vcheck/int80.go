package main

import (
	"bufio"
	"encoding/json"
	"fmt"
	"os"
	"runtime"
	"time"

	seccomp "github.com/elastic/go-seccomp-bpf"

	"verif/harness/engine"
	"verif/harness/evid"
	"verif/harness/refsem"
)

func int80(nr, a1, a2, a3 uintptr) (r uintptr)

func init() {
	// child: optional policy on stdin; issues i386 getpid/getppid/getuid32 through int $0x80 and prints the results
	childCmds["int80"] = func(args []string) {
		runtime.LockOSThread()
		out := map[string]any{}
		out["before_getpid"] = int32(int80(20, 0, 0, 0)) // i386 getpid: proves that 32-bit emulation works here
		var pj engine.PolJSON
		if err := json.NewDecoder(bufio.NewReader(os.Stdin)).Decode(&pj); err == nil {
			_, pol := engine.FromJSON(pj)
			if err := safeLoad(seccomp.Filter{NoNewPrivs: true, Policy: *pol}); err != nil {
				out["load_err"] = err.Error()
			}
		}
		// i386 numbers: getppid 64 (x86_64: semget), getuid32 199 (x86_64: lremovexattr), getpgrp 65 (x86_64: semop)
		for _, nr := range []uintptr{64, 199, 65} {
			out[fmt.Sprintf("i386_%d", nr)] = int32(int80(nr, 1, 2, 3))
		}
		b, _ := json.Marshal(out)
		os.Stdout.Write(append(b, '\n'))
	}
}

// c04Kernel: foreign-architecture events on the real kernel (i386 entry point from a 64-bit process).
func c04Kernel(ctx *evid.Ctx) {
	if !seccompAvailable() {
		ctx.Cov["kernel_foreign_arch_probe"] = "seccomp unavailable"
		return
	}
	var probe map[string]any
	sig, exit, _, err := runChildJSON(30*time.Second, false, nil, "int80", "no policy", &probe)
	if err != nil || sig != 0 || exit != 0 || probe["before_getpid"] == nil || probe["before_getpid"].(float64) <= 0 {
		ctx.Cov["kernel_foreign_arch_probe"] = "32-bit system call entry (int $0x80) not available here"
		return
	}
	a := refsem.ArchByName("x86_64")
	all := a.SortedNames()
	type kc struct {
		label string
		pol   *seccomp.Policy
	}
	cases := []kc{
		{"default errno, whole x86_64 table allowed (numbers 64, 65, 199 are listed, as other syscalls)", &seccomp.Policy{DefaultAction: seccomp.ActionErrno, Syscalls: []seccomp.SyscallGroup{{Action: seccomp.ActionAllow, Names: all}}}},
		{"default allow, whole x86_64 table answered errno except what the runtime needs", nil},
		{"default errno, small allow list with conditions", &seccomp.Policy{DefaultAction: seccomp.ActionErrno, Syscalls: []seccomp.SyscallGroup{{Action: seccomp.ActionAllow, Names: all[:300]},
			{Action: seccomp.ActionAllow, Names: all[300:], NamesWithCondtions: nil}}}},
		{"default log, semget (64) answered errno", &seccomp.Policy{DefaultAction: seccomp.ActionLog, Syscalls: []seccomp.SyscallGroup{{Action: seccomp.ActionErrno, Names: []string{"semget", "semop", "lremovexattr"}}}}},
	}
	n := 0
	for _, c := range cases {
		if c.pol == nil {
			continue
		}
		var res map[string]any
		pj := engine.ToJSON(a, c.pol, false)
		sig, exit, se, err := runChildJSON(30*time.Second, false, nil, "int80", pj, &res)
		if err != nil || sig != 0 || exit != 0 || res["load_err"] != nil {
			ctx.Capped(fmt.Sprintf("int80 child failed: %v sig=%v exit=%d %v %.200s", err, sig, exit, res["load_err"], se))
			continue
		}
		// every i386 event has a foreign architecture: the answer must be the default action
		wantErrno := c.pol.DefaultAction == seccomp.ActionErrno
		for _, k := range []string{"i386_64", "i386_199", "i386_65"} {
			n++
			got := int32(res[k].(float64))
			denied := got == -1 // -EPERM
			if denied != wantErrno {
				ctx.Violation("C04:kernel-foreign-arch:"+k, fmt.Sprintf("real kernel, %s: the i386 system call %s issued through int $0x80 returned %d; a foreign-architecture event must get the default action (%#x)", c.label, k, got, refsem.Enc(c.pol.DefaultAction)), map[string]any{"policy": pj, "result": res})
			}
		}
	}
	ctx.Cov["kernel_foreign_arch_events_observed"] = n
}
