#include "textflag.h"

// func int80(nr, a1, a2, a3 uintptr) (r uintptr)
// Issues a system call through the 32-bit entry point (int $0x80) from this 64-bit process; the kernel then reports
// AUDIT_ARCH_I386 to seccomp. Used only in throw-away child processes of the C04 check.
TEXT ·int80(SB),NOSPLIT,$0-40
	MOVQ nr+0(FP), AX
	MOVQ a1+8(FP), BX
	MOVQ a2+16(FP), CX
	MOVQ a3+24(FP), DX
	INT $0x80
	MOVQ AX, r+32(FP)
	RET
