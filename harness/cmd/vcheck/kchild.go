package main

import (
	"bufio"
	"bytes"
	"context"
	"encoding/json"
	"fmt"
	"os"
	"os/exec"
	"runtime"
	"syscall"
	"time"
	"unsafe"

	"verif/harness/cbpf"
	"verif/harness/evid"
)

const (
	sysSeccomp         = 317 // x86_64
	prSetNoNewPrivs    = 38
	prGetNoNewPrivs    = 39
	seccompSetModeFilt = 1
	kverifyBudget      = 26000 // attached instructions per child (kernel limit: 32768 incl. 4 per filter)
)

func init() {
	childCmds["kverify"] = childKVerify
}

type rawProg [][4]uint32

func toRaw(p []cbpf.Insn) rawProg {
	out := make(rawProg, len(p))
	for i, f := range p {
		out[i] = [4]uint32{uint32(f.Op), uint32(f.Jt), uint32(f.Jf), f.K}
	}
	return out
}

// rawSeccompLoad hands prog to seccomp(2) directly (no library code involved).
func rawSeccompLoad(prog rawProg, declaredLen int, flags uintptr) syscall.Errno {
	filt := make([]syscall.SockFilter, len(prog)+1)
	for i, f := range prog {
		filt[i] = syscall.SockFilter{Code: uint16(f[0]), Jt: uint8(f[1]), Jf: uint8(f[2]), K: f[3]}
	}
	fp := syscall.SockFprog{Len: uint16(declaredLen), Filter: &filt[0]}
	_, _, e := syscall.RawSyscall(sysSeccomp, seccompSetModeFilt, flags, uintptr(unsafe.Pointer(&fp)))
	runtime.KeepAlive(filt)
	return e
}

// childKVerify: stdin = JSON list of programs; loads each into the kernel (returns rewritten to ALLOW by the
// parent) and prints one errno per line until its budget of attached instructions is used up.
func childKVerify(args []string) {
	runtime.LockOSThread()
	var progs []rawProg
	if err := json.NewDecoder(bufio.NewReader(os.Stdin)).Decode(&progs); err != nil {
		fmt.Fprintln(os.Stderr, err)
		os.Exit(2)
	}
	syscall.RawSyscall(syscall.SYS_PRCTL, prSetNoNewPrivs, 1, 0)
	w := bufio.NewWriter(os.Stdout)
	defer w.Flush()
	used := 0
	for i, p := range progs {
		if used+len(p)+4 > kverifyBudget && len(p) <= cbpf.MaxInsns {
			fmt.Fprintf(w, "stop %d\n", i)
			return
		}
		e := rawSeccompLoad(p, len(p), 0)
		if e == 0 {
			used += len(p) + 4
		}
		fmt.Fprintf(w, "%d %d\n", i, int(e))
		w.Flush()
	}
	fmt.Fprintf(w, "stop %d\n", len(progs))
}

// kernelVerdicts returns the errno the real kernel gives for each program (-1 = could not be determined).
func kernelVerdicts(progs []rawProg) []int {
	res := make([]int, len(progs))
	for i := range res {
		res[i] = -1
	}
	// split into chunks whose accepted size fits a child's budget, run chunks in parallel
	var chunks [][2]int
	start, used := 0, 0
	for i, p := range progs {
		if used+len(p)+4 > kverifyBudget && i > start {
			chunks = append(chunks, [2]int{start, i})
			start, used = i, 0
		}
		used += len(p) + 4
	}
	if start < len(progs) {
		chunks = append(chunks, [2]int{start, len(progs)})
	}
	self, _ := os.Executable()
	parallelFor(len(chunks), func(ci int) {
		lo, hi := chunks[ci][0], chunks[ci][1]
		for lo < hi {
			in, _ := json.Marshal(progs[lo:hi])
			cctx, cancel := context.WithTimeout(context.Background(), 120*time.Second)
			cmd := exec.CommandContext(cctx, self, "child", "kverify")
			cmd.Stdin = bytes.NewReader(in)
			out, err := cmd.Output()
			cancel()
			if err != nil && len(out) == 0 {
				return
			}
			adv := 0
			sc := bufio.NewScanner(bytes.NewReader(out))
			for sc.Scan() {
				var i, e int
				if n, _ := fmt.Sscanf(sc.Text(), "stop %d", &i); n == 1 {
					adv = i
					break
				}
				if n, _ := fmt.Sscanf(sc.Text(), "%d %d", &i, &e); n == 2 {
					res[lo+i] = e
					adv = i + 1
				}
			}
			if adv == 0 {
				return
			}
			lo += adv
		}
	})
	return res
}

func ins(op uint16, jt, jf uint8, k uint32) cbpf.Insn { return cbpf.Insn{Op: op, Jt: jt, Jf: jf, K: k} }

// invalidSet: one program per acceptance/rejection rule of the kernel verifier.
func verifierRuleSet() (names []string, progs [][]cbpf.Insn) {
	ret := ins(cbpf.OpRetK, 0, 0, 0x7fff0000)
	ld := func(k uint32) cbpf.Insn { return ins(cbpf.OpLdWAbs, 0, 0, k) }
	add := func(n string, p ...cbpf.Insn) { names = append(names, n); progs = append(progs, p) }
	add("ret only", ret)
	add("ld nr; ret", ld(0), ret)
	add("ld 60 (last word)", ld(60), ret)
	add("ld 64 (outside)", ld(64), ret)
	add("ld 1 (unaligned)", ld(1), ret)
	add("ld 2 (unaligned)", ld(2), ret)
	add("ld 3 (unaligned)", ld(3), ret)
	add("ld 0xfffff000 (ancillary)", ld(0xfffff000), ret)
	add("ldh abs", ins(cbpf.ClsLD|cbpf.SzH|cbpf.ModeABS, 0, 0, 0), ret)
	add("ldb abs", ins(cbpf.ClsLD|cbpf.SzB|cbpf.ModeABS, 0, 0, 0), ret)
	add("ld ind", ins(cbpf.ClsLD|cbpf.SzW|cbpf.ModeIND, 0, 0, 0), ret)
	add("ldx msh", ins(cbpf.ClsLDX|cbpf.SzB|cbpf.ModeMSH, 0, 0, 0), ret)
	add("ld len", ins(cbpf.ClsLD|cbpf.SzW|cbpf.ModeLEN, 0, 0, 0), ret)
	add("ldx len", ins(cbpf.ClsLDX|cbpf.SzW|cbpf.ModeLEN, 0, 0, 0), ret)
	add("ld imm", ins(cbpf.ClsLD|cbpf.ModeIMM, 0, 0, 7), ret)
	add("ldx imm", ins(cbpf.ClsLDX|cbpf.ModeIMM, 0, 0, 7), ret)
	add("tax txa", ins(cbpf.ClsMISC|cbpf.MiscTAX, 0, 0, 0), ins(cbpf.ClsMISC|cbpf.MiscTXA, 0, 0, 0), ret)
	add("ret a", ins(cbpf.ClsLD|cbpf.ModeIMM, 0, 0, 0x7fff0000), ins(cbpf.OpRetA, 0, 0, 0))
	add("ret x (0x0e)", ins(cbpf.ClsRET|cbpf.SrcX, 0, 0, 0))
	add("no final return", ret, ld(0))
	add("last is jump", ld(0), ins(cbpf.ClsJMP|cbpf.JmpJEQ, 0, 0, 1))
	add("jeq jt in range", ld(0), ins(cbpf.ClsJMP|cbpf.JmpJEQ, 1, 0, 1), ret, ret)
	add("jeq jt out of range", ld(0), ins(cbpf.ClsJMP|cbpf.JmpJEQ, 2, 0, 1), ret, ret)
	add("jeq jf out of range", ld(0), ins(cbpf.ClsJMP|cbpf.JmpJEQ, 0, 2, 1), ret, ret)
	add("jgt x", ld(0), ins(cbpf.ClsJMP|cbpf.JmpJGT|cbpf.SrcX, 0, 1, 0), ret, ret)
	add("jge k", ld(0), ins(cbpf.ClsJMP|cbpf.JmpJGE, 1, 0, 5), ret, ret)
	add("jset k", ld(0), ins(cbpf.ClsJMP|cbpf.JmpJSET, 1, 0, 5), ret, ret)
	add("jmp op 0x50 (invalid)", ld(0), ins(cbpf.ClsJMP|0x50, 0, 0, 5), ret)
	add("ja in range", ins(cbpf.OpJA, 0, 0, 1), ret, ret)
	add("ja to last", ins(cbpf.OpJA, 0, 0, 0), ret)
	add("ja out of range", ins(cbpf.OpJA, 0, 0, 2), ret, ret)
	add("ja wrapped skip", ins(cbpf.OpJA, 0, 0, 4294967129), ret, ret)
	add("opcode 0xffff", ins(0xffff, 0, 0, 0), ret)
	add("alu add k", ins(cbpf.ClsALU|cbpf.AluADD, 0, 0, 1), ret)
	add("alu div 0", ins(cbpf.ClsALU|cbpf.AluDIV, 0, 0, 0), ret)
	add("alu div 2", ins(cbpf.ClsALU|cbpf.AluDIV, 0, 0, 2), ret)
	add("alu div x", ins(cbpf.ClsLDX|cbpf.ModeIMM, 0, 0, 2), ins(cbpf.ClsALU|cbpf.AluDIV|cbpf.SrcX, 0, 0, 0), ret)
	add("alu mod k (classic ok, seccomp no)", ins(cbpf.ClsALU|cbpf.AluMOD, 0, 0, 2), ret)
	add("alu mod 0", ins(cbpf.ClsALU|cbpf.AluMOD, 0, 0, 0), ret)
	add("alu xor", ins(cbpf.ClsALU|cbpf.AluXOR, 0, 0, 2), ret)
	add("alu neg", ins(cbpf.ClsALU|cbpf.AluNEG, 0, 0, 0), ret)
	add("alu lsh 31", ins(cbpf.ClsALU|cbpf.AluLSH, 0, 0, 31), ret)
	add("alu lsh 32", ins(cbpf.ClsALU|cbpf.AluLSH, 0, 0, 32), ret)
	add("alu rsh 32", ins(cbpf.ClsALU|cbpf.AluRSH, 0, 0, 32), ret)
	add("alu op 0xb0 (invalid)", ins(cbpf.ClsALU|0xb0, 0, 0, 1), ret)
	add("st 0; ld mem 0", ins(cbpf.ClsST, 0, 0, 0), ins(cbpf.ClsLD|cbpf.ModeMEM, 0, 0, 0), ret)
	add("ld mem before st", ins(cbpf.ClsLD|cbpf.ModeMEM, 0, 0, 0), ret)
	add("ldx mem before stx", ins(cbpf.ClsLDX|cbpf.ModeMEM, 0, 0, 3), ret)
	add("st 15", ins(cbpf.ClsST, 0, 0, 15), ret)
	add("st 16", ins(cbpf.ClsST, 0, 0, 16), ret)
	add("stx 16", ins(cbpf.ClsSTX, 0, 0, 16), ret)
	add("ld mem 16", ins(cbpf.ClsST, 0, 0, 0), ins(cbpf.ClsLD|cbpf.ModeMEM, 0, 0, 16), ret)
	add("store on one branch only", ld(0), ins(cbpf.ClsJMP|cbpf.JmpJEQ, 0, 1, 1), ins(cbpf.ClsST, 0, 0, 2), ins(cbpf.ClsLD|cbpf.ModeMEM, 0, 0, 2), ret)
	add("store on both branches", ld(0), ins(cbpf.ClsJMP|cbpf.JmpJEQ, 0, 2, 1), ins(cbpf.ClsST, 0, 0, 2), ins(cbpf.OpJA, 0, 0, 1), ins(cbpf.ClsST, 0, 0, 2), ins(cbpf.ClsLD|cbpf.ModeMEM, 0, 0, 2), ret)
	long := func(n int) []cbpf.Insn {
		p := make([]cbpf.Insn, n)
		for i := range p {
			p[i] = ld(0)
		}
		p[n-1] = ret
		return p
	}
	names, progs = append(names, "length 4096"), append(progs, long(4096))
	names, progs = append(names, "length 4097"), append(progs, long(4097))
	names, progs = append(names, "length 4095"), append(progs, long(4095))
	// all-empty-groups shape before the fix: arch jump past the end / no return
	add("pre-fix all-empty x86_64 shape", ld(4), ins(cbpf.ClsJMP|cbpf.JmpJEQ, 0, 1, 0xc000003e), ld(0), ins(cbpf.ClsJMP|cbpf.JmpJGE, 0, 1, 0x40000000), ret)
	return
}

// kernelConformance validates cbpf.Check against the real kernel.
func kernelConformance(ctx *evid.Ctx, c *shapeCollector, tier string) {
	if !seccompAvailable() {
		ctx.Capped("seccomp(2) is not available in this environment: the verifier port could not be validated against the kernel")
		return
	}
	names, rule := verifierRuleSet()
	var all [][]cbpf.Insn
	var labels []string
	for i := range rule {
		all = append(all, rule[i])
		labels = append(labels, "rule:"+names[i])
	}
	c.mu.Lock()
	for _, p := range c.shapes {
		if len(p) > cbpf.MaxInsns+8 {
			continue
		}
		q := make([]cbpf.Insn, len(p))
		copy(q, p)
		for i := range q {
			if q[i].Op == cbpf.OpRetK {
				q[i].K = 0x7fff0000
			}
		}
		all = append(all, q)
		labels = append(labels, "emitted")
	}
	c.mu.Unlock()
	raws := make([]rawProg, len(all))
	for i, p := range all {
		raws[i] = toRaw(p)
	}
	// length 0 cannot be expressed as a slice; handled by the child through declaredLen == len
	verd := kernelVerdicts(raws)
	agree, undetermined := 0, 0
	for i, p := range all {
		if verd[i] < 0 {
			undetermined++
			continue
		}
		portOK := cbpf.Check(p) == nil
		kernOK := verd[i] == 0
		if verd[i] != 0 && verd[i] != int(syscall.EINVAL) {
			undetermined++
			continue
		}
		if portOK == kernOK {
			agree++
			continue
		}
		// The port is part of the harness: a disagreement is a harness error, reported loudly but not as a
		// property violation of the library.
		fmt.Printf("HARNESS-ERROR verifier port and kernel disagree on %s (len %d): port ok=%v kernel errno=%d\n", labels[i], len(p), portOK, verd[i])
		ctx.Capped("verifier port disagrees with the kernel on " + labels[i])
	}
	ctx.Cov["traces_validated_against_impl"] = agree
	ctx.Cov["verifier_rule_programs"] = len(rule)
	ctx.Cov["kernel_verdicts_undetermined"] = undetermined
	ctx.Count("kernel_replayed_programs", int64(agree))
	if undetermined > 0 {
		ctx.Capped(fmt.Sprintf("%d programs could not be submitted to the kernel", undetermined))
	}
}

func seccompAvailable() bool {
	self, _ := os.Executable()
	in, _ := json.Marshal([]rawProg{toRaw([]cbpf.Insn{ins(cbpf.OpRetK, 0, 0, 0x7fff0000)})})
	cctx, cancel := context.WithTimeout(context.Background(), 60*time.Second)
	defer cancel()
	cmd := exec.CommandContext(cctx, self, "child", "kverify")
	cmd.Stdin = bytes.NewReader(in)
	out, err := cmd.Output()
	return err == nil && bytes.HasPrefix(out, []byte("0 0\n"))
}
