package main

import (
	"sync"

	"verif/harness/cbpf"
	"verif/harness/evid"
)

// shapeCollector keeps one program per distinct shape (opcodes, jump offsets, load offsets; return and
// comparison constants abstracted) for replay against the real kernel verifier.
type shapeCollector struct {
	mu     sync.Mutex
	shapes map[[16]byte][]cbpf.Insn
}

func newShapeCollector() *shapeCollector { return &shapeCollector{shapes: map[[16]byte][]cbpf.Insn{}} }

func (c *shapeCollector) add(p []cbpf.Insn) {
	sh := make([]cbpf.Insn, len(p))
	for i, f := range p {
		sh[i] = f
		switch {
		case f.Op == cbpf.OpRetK:
			sh[i].K = 0
		case f.Op&7 == cbpf.ClsJMP && f.Op != cbpf.OpJA:
			sh[i].K = 0
		}
	}
	h := progHash(sh)
	c.mu.Lock()
	if _, ok := c.shapes[h]; !ok {
		c.shapes[h] = p
	}
	c.mu.Unlock()
}

var _ = evid.Root
