package main

import (
	"fmt"
	"sync/atomic"

	seccomp "github.com/elastic/go-seccomp-bpf"

	"verif/harness/cbpf"
	"verif/harness/engine"
	"verif/harness/refsem"
)

// literalNrSweeps runs all 2^32 syscall numbers literally for a few policies, as
// a cross-check of the partition argument (DESIGN 2.4).
func literalNrSweeps(r *compileRun) {
	type lit struct {
		a *refsem.Arch
		p *seccomp.Policy
	}
	var cases []lit
	for _, a := range refsem.Archs() {
		n := s1Names(a)
		cases = append(cases, lit{a, &seccomp.Policy{DefaultAction: seccomp.ActionKillProcess, Syscalls: []seccomp.SyscallGroup{
			{Action: seccomp.ActionAllow, Names: []string{n[0], n[2]}}, {Action: seccomp.ActionErrno, Names: []string{n[1]}}}}})
		cases = append(cases, lit{a, &seccomp.Policy{DefaultAction: seccomp.ActionAllow, Syscalls: []seccomp.SyscallGroup{
			{Action: seccomp.ActionErrno, Names: []string{n[1]}, NamesWithCondtions: []seccomp.NameWithConditions{
				{Name: n[2], Conditions: seccomp.ArgumentConditions{{Argument: 0, Operation: seccomp.Equal, Value: uint64(mustNum(a, n[1]))}}}}},
			{Action: seccomp.ActionTrap, Names: []string{n[0]}}}}})
	}
	for ci, c := range cases {
		insts, err, pan := engine.Compile(c.a, c.p, false)
		if err != nil || pan != nil {
			r.ctx.Violation(fmt.Sprintf("C01:literal:%d:compile", ci), fmt.Sprintf("literal-sweep policy does not compile: %v %v", err, pan), engine.ToJSON(c.a, c.p, false))
			continue
		}
		prog, _ := engine.Raw(insts)
		var mism int64
		var first uint64 = 1 << 40
		parallelFor(256, func(chunk int) {
			base := uint64(chunk) << 24
			ev := cbpf.Event{Arch: c.a.ID}
			ev.Args[0] = uint64(mustNum(c.a, s1Names(c.a)[1]))
			for off := uint64(0); off < 1<<24; off++ {
				ev.Nr = uint32(base + off)
				d := ev.Words(false)
				got, xerr := cbpf.Run(prog, &d, nil, nil)
				if xerr != nil || got != refsem.Decide(c.a, c.p, ev) {
					if atomic.AddInt64(&mism, 1) == 1 {
						atomic.StoreUint64(&first, base+off)
					}
				}
			}
		})
		r.ctx.Count("literal_nr_sweep_events", 1<<32)
		r.ctx.Count("literal_nr_sweep_policies", 1)
		if mism > 0 {
			ev := cbpf.Event{Arch: c.a.ID, Nr: uint32(atomic.LoadUint64(&first))}
			ev.Args[0] = uint64(mustNum(c.a, s1Names(c.a)[1]))
			r.ctx.Violation(fmt.Sprintf("C01:literal:%d", ci), fmt.Sprintf("literal 2^32 nr sweep: %d mismatching numbers", mism),
				compileReplay{Scope: "literal", Policy: engine.ToJSON(c.a, c.p, false), Event: &ev, Class: engine.ClsDecision})
		}
	}
}

func mustNum(a *refsem.Arch, n string) uint32 { v, _ := a.Number(n); return v }

func refsemArch(n string) *refsem.Arch { return refsem.ArchByName(n) }
