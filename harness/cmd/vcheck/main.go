// vcheck is the dispatcher of the verification harness: vcheck <ID> <quick|thorough> [--replay file]
package main

import (
	"fmt"
	"os"
	"path/filepath"
	"runtime"
	"sync"
	"sync/atomic"

	"verif/harness/evid"
	"verif/harness/refsem"
)

type checkFn func(tier string, replay string) int

var checks = map[string]checkFn{}

func register(id string, f checkFn) { checks[id] = f }

func main() {
	if len(os.Args) >= 2 && os.Args[1] == "child" {
		childMain(os.Args[2:])
		return
	}
	if len(os.Args) < 3 {
		fmt.Fprintln(os.Stderr, "usage: vcheck <ID> <quick|thorough> [--replay file]")
		os.Exit(2)
	}
	id, tier := os.Args[1], os.Args[2]
	replay := ""
	for i := 3; i < len(os.Args); i++ {
		if os.Args[i] == "--replay" && i+1 < len(os.Args) {
			replay = os.Args[i+1]
			i++
		}
	}
	if tier == "--replay" && len(os.Args) >= 4 {
		replay, tier = os.Args[3], "quick"
	}
	f, ok := checks[id]
	if !ok {
		fmt.Fprintln(os.Stderr, "unknown check", id)
		os.Exit(2)
	}
	if tier != "quick" && tier != "thorough" {
		fmt.Fprintln(os.Stderr, "tier must be quick or thorough")
		os.Exit(2)
	}
	evid.Replaying = replay != ""
	code := f(tier, replay)
	cleanupPublicSelf()
	os.Exit(code)
}

var (
	publicOnce sync.Once
	publicDir  string
	publicBin  string
)

// publicSelf returns a copy of this executable in a world-accessible directory, for children that run as uid 65534
// (the harness itself may live under a directory nobody cannot traverse).
func publicSelf() string {
	publicOnce.Do(func() {
		self, _ := os.Executable()
		publicBin = self
		d, err := os.MkdirTemp("", "vcheck-pub")
		if err != nil {
			return
		}
		os.Chmod(d, 0o755)
		b, err := os.ReadFile(self)
		if err != nil {
			os.RemoveAll(d)
			return
		}
		p := d + "/vcheck"
		if os.WriteFile(p, b, 0o755) != nil {
			os.RemoveAll(d)
			return
		}
		publicDir, publicBin = d, p
		// the unprivileged children need the oracle file too, and /verif (or wherever this tree lives) may not be readable for them
		if ob, err := os.ReadFile(filepath.Join(refsem.Root(), "oracles", "oracles.json")); err == nil {
			if os.WriteFile(d+"/oracles.json", ob, 0o644) == nil {
				os.Setenv("VERIF_ORACLES", d+"/oracles.json")
			}
		}
	})
	return publicBin
}

func cleanupPublicSelf() {
	if publicDir != "" {
		os.RemoveAll(publicDir)
	}
}

// parallelFor runs fn(i) for i in [0,n) on all cores; order of hand-out is ascending.
func parallelFor(n int, fn func(i int)) {
	var next int64 = -1
	var wg sync.WaitGroup
	w := runtime.NumCPU()
	if w > n {
		w = n
	}
	for k := 0; k < w; k++ {
		wg.Add(1)
		go func() {
			defer wg.Done()
			for {
				i := int(atomic.AddInt64(&next, 1))
				if i >= n {
					return
				}
				fn(i)
			}
		}()
	}
	wg.Wait()
}
