// vcheck is the dispatcher of the verification harness: vcheck <ID> <quick|thorough> [--replay file]
package main

import (
	"encoding/json"
	"fmt"
	"os"
	"path/filepath"
	"runtime"
	"runtime/debug"
	"strings"
	"sync"
	"sync/atomic"

	"verif/harness/evid"
	"verif/harness/refsem"
)

type checkFn func(tier string, replay string) int

var checks = map[string]checkFn{}

func register(id string, f checkFn) { checks[id] = f }

func main() {
	if len(os.Args) >= 2 && os.Args[1] == "child" {
		childMain(os.Args[2:])
		return
	}
	if len(os.Args) < 3 {
		fmt.Fprintln(os.Stderr, "usage: vcheck <ID> <quick|thorough> [--replay file]")
		os.Exit(2)
	}
	id, tier := os.Args[1], os.Args[2]
	replay := ""
	for i := 3; i < len(os.Args); i++ {
		if os.Args[i] == "--replay" && i+1 < len(os.Args) {
			replay = os.Args[i+1]
			i++
		}
	}
	if tier == "--replay" && len(os.Args) >= 4 {
		replay, tier = os.Args[3], "quick"
	}
	f, ok := checks[id]
	if !ok {
		fmt.Fprintln(os.Stderr, "unknown check", id)
		os.Exit(2)
	}
	if tier != "quick" && tier != "thorough" {
		fmt.Fprintln(os.Stderr, "tier must be quick or thorough")
		os.Exit(2)
	}
	evid.Replaying = replay != ""
	curCheck = id
	defer guardPanic()
	code := f(tier, replay)
	cleanupPublicSelf()
	os.Exit(code)
}

var (
	publicOnce sync.Once
	publicDir  string
	publicBin  string
)

// publicSelf returns a copy of this executable in a world-accessible directory, for children that run as uid 65534
// (the harness itself may live under a directory nobody cannot traverse).
func publicSelf() string {
	publicOnce.Do(func() {
		self, _ := os.Executable()
		publicBin = self
		d, err := os.MkdirTemp("", "vcheck-pub")
		if err != nil {
			return
		}
		os.Chmod(d, 0o755)
		b, err := os.ReadFile(self)
		if err != nil {
			os.RemoveAll(d)
			return
		}
		p := d + "/vcheck"
		if os.WriteFile(p, b, 0o755) != nil {
			os.RemoveAll(d)
			return
		}
		publicDir, publicBin = d, p
		// the unprivileged children need the oracle file too, and /verif (or wherever this tree lives) may not be readable for them
		if ob, err := os.ReadFile(filepath.Join(refsem.Root(), "oracles", "oracles.json")); err == nil {
			if os.WriteFile(d+"/oracles.json", ob, 0o644) == nil {
				os.Setenv("VERIF_ORACLES", d+"/oracles.json")
			}
		}
	})
	return publicBin
}

func cleanupPublicSelf() {
	if publicDir != "" {
		os.RemoveAll(publicDir)
	}
}

// parallelFor runs fn(i) for i in [0,n) on all cores; order of hand-out is ascending.
func parallelFor(n int, fn func(i int)) {
	var next int64 = -1
	var wg sync.WaitGroup
	w := runtime.NumCPU()
	if w > n {
		w = n
	}
	for k := 0; k < w; k++ {
		wg.Add(1)
		go func() {
			defer wg.Done()
			defer guardPanic()
			for {
				i := int(atomic.AddInt64(&next, 1))
				if i >= n {
					return
				}
				fn(i)
			}
		}()
	}
	wg.Wait()
}

var (
	curCheck  string
	panicOnce sync.Once
)

// guardPanic (deferred in every goroutine the checks start through parallelFor, and in main) tells a panic that comes out
// of the library under test - called in-process by several checks - from one of the harness itself. The first is what it
// is: the library crashed on an input of the explored space, reported as a violation of the running check with the stack
// as its replay artefact. The second is a defect of the machinery and ends the run with status 2 (not a verdict).
func guardPanic() {
	r := recover()
	if r == nil {
		return
	}
	stack := string(debug.Stack())
	panicOnce.Do(func() {
		// the frame that panicked: the first one below the runtime's own
		origin := ""
		lines := strings.Split(stack, "\n")
		for i := 0; i+1 < len(lines); i++ {
			l := lines[i]
			if strings.HasPrefix(l, "goroutine ") || strings.HasPrefix(l, "\t") || l == "" {
				continue
			}
			if strings.HasPrefix(l, "runtime.") || strings.HasPrefix(l, "runtime/debug.") || strings.HasPrefix(l, "panic(") || strings.HasPrefix(l, "main.guardPanic") {
				continue
			}
			origin = l
			break
		}
		if strings.Contains(origin, "github.com/elastic/go-seccomp-bpf") {
			dir := filepath.Join(evid.OutRoot(), "replays", curCheck)
			os.MkdirAll(dir, 0o755)
			path := filepath.Join(dir, "library-panic.json")
			b, _ := json.MarshalIndent(map[string]any{"property": curCheck, "key": curCheck + ":library-panic", "what": fmt.Sprintf("the library panicked while the check was exploring: %v (in %s)", r, origin), "case": map[string]any{"stack": stack}}, "", " ")
			if !evid.Replaying {
				os.WriteFile(path, b, 0o644)
			}
			fmt.Printf("VIOLATION property=%s replay=%s\n  key=%s:library-panic the library panicked: %v (in %s)\n", curCheck, path, curCheck, r, origin)
			cleanupPublicSelf()
			os.Exit(1)
		}
		fmt.Fprintf(os.Stderr, "harness panic in check %s (not a property verdict): %v\n%s\n", curCheck, r, stack)
		cleanupPublicSelf()
		os.Exit(2)
	})
	select {} // another goroutine is already ending the process
}
