// Package engine compiles a policy with the real library, runs the result on
// every cell of the exact event partition and compares with the reference.
package engine

import (
	"encoding/binary"
	"fmt"
	"sync"

	seccomp "github.com/elastic/go-seccomp-bpf"
	"golang.org/x/net/bpf"

	"verif/harness/cbpf"
	"verif/harness/refsem"
)

// Issue classes.
const (
	ClsDecision = "decision" // own-architecture, non-x32 event decided differently from the reference
	ClsForeign  = "foreign"  // foreign-architecture or x32 event decided differently
	ClsVerifier = "verifier" // emitted program not a valid seccomp filter / return set not closed / raw encode fails
	ClsAccept   = "accept"   // defective policy accepted
	ClsReject   = "reject"   // defect-free policy rejected
	ClsPanic    = "panic"
	ClsErrShape = "errshape" // error returned together with a program
	ClsInexact  = "inexact"  // partition not exact for this policy (not a violation; excluded from exhaustive count)
)

type Issue struct {
	Class string
	What  string
	Event *cbpf.Event
	Got   uint32
	Want  uint32
}

// PolJSON is the replay form of a policy (independent of the library's tags).
type PolJSON struct {
	Arch    string      `json:"arch"`
	Big     bool        `json:"big_endian"`
	Default uint32      `json:"default_action"`
	Groups  []GroupJSON `json:"groups"`
}
type GroupJSON struct {
	Action uint32      `json:"action"`
	Names  []string    `json:"names"`
	Conds  []EntryJSON `json:"names_with_args,omitempty"`
}
type EntryJSON struct {
	Name  string     `json:"name"`
	Conds []CondJSON `json:"conds"`
}
type CondJSON struct {
	Arg uint32 `json:"arg"`
	Op  string `json:"op"`
	Val uint64 `json:"val"`
}

func ToJSON(a *refsem.Arch, p *seccomp.Policy, big bool) PolJSON {
	j := PolJSON{Arch: a.Name, Big: big, Default: uint32(p.DefaultAction)}
	for _, g := range p.Syscalls {
		gj := GroupJSON{Action: uint32(g.Action), Names: g.Names}
		for _, e := range g.NamesWithCondtions {
			ej := EntryJSON{Name: e.Name}
			for _, c := range e.Conditions {
				ej.Conds = append(ej.Conds, CondJSON{c.Argument, string(c.Operation), c.Value})
			}
			gj.Conds = append(gj.Conds, ej)
		}
		j.Groups = append(j.Groups, gj)
	}
	return j
}

func FromJSON(j PolJSON) (*refsem.Arch, *seccomp.Policy) {
	a := refsem.ArchByName(j.Arch)
	p := &seccomp.Policy{DefaultAction: seccomp.Action(j.Default)}
	for _, g := range j.Groups {
		sg := seccomp.SyscallGroup{Action: seccomp.Action(g.Action), Names: g.Names}
		for _, e := range g.Conds {
			ne := seccomp.NameWithConditions{Name: e.Name}
			for _, c := range e.Conds {
				ne.Conditions = append(ne.Conditions, seccomp.Condition{Argument: c.Arg, Operation: seccomp.Operation(c.Op), Value: c.Val})
			}
			sg.NamesWithCondtions = append(sg.NamesWithCondtions, ne)
		}
		p.Syscalls = append(p.Syscalls, sg)
	}
	return a, p
}

// endianMu serialises compilations that need the non-host byte order (the
// override is a package variable of the library).
var endianMu sync.RWMutex

// Compile runs the real compiler on a copy of p for architecture a.
func Compile(a *refsem.Arch, p *seccomp.Policy, big bool) (insts []bpf.Instruction, err error, panicked any) {
	cp := *p
	seccomp.VerifSetArch(&cp, a.Info)
	if big {
		endianMu.Lock()
		restore := seccomp.VerifSetByteOrder(binary.BigEndian)
		defer func() { restore(); endianMu.Unlock() }()
	} else {
		endianMu.RLock()
		defer endianMu.RUnlock()
	}
	defer func() {
		if r := recover(); r != nil {
			panicked = r
			insts = nil
		}
	}()
	tok := Enter(func() any {
		return map[string]any{"scope": "non-terminating Assemble", "policy": ToJSON(a, p, big), "class": "hang"}
	})
	insts, err = cp.Assemble()
	Leave(tok)
	return
}

// CompileAfter first assembles the policy VALUE in an earlier shape (prior) and then, on the very same value, the final
// policy: whatever the library keeps inside the value between calls must not influence the second result.
func CompileAfter(a *refsem.Arch, prior, final *seccomp.Policy, big bool) (insts []bpf.Instruction, err error, panicked any) {
	return CompileAfterOn(a, a, prior, final, big)
}

// CompileAfterOn is CompileAfter with the earlier compilation done for another architecture (priorArch): the value, and
// the Syscalls array the two shapes share, then carry whatever the library attached to them for that architecture.
func CompileAfterOn(a, priorArch *refsem.Arch, prior, final *seccomp.Policy, big bool) (insts []bpf.Instruction, err error, panicked any) {
	cp := *prior
	seccomp.VerifSetArch(&cp, priorArch.Info)
	if big {
		endianMu.Lock()
		restore := seccomp.VerifSetByteOrder(binary.BigEndian)
		defer func() { restore(); endianMu.Unlock() }()
	} else {
		endianMu.RLock()
		defer endianMu.RUnlock()
	}
	defer func() {
		if r := recover(); r != nil {
			panicked = r
			insts = nil
		}
	}()
	tok := Enter(func() any {
		return map[string]any{"scope": "non-terminating Assemble", "policy": ToJSON(a, final, big), "class": "hang"}
	})
	defer Leave(tok)
	cp.Assemble()
	if prior != final {
		cp.DefaultAction, cp.Syscalls = final.DefaultAction, final.Syscalls
	} // else: the very same policy is compiled again - whatever the first call wrote into the value stays
	if priorArch != a {
		seccomp.VerifSetArch(&cp, a.Info)
	}
	insts, err = cp.Assemble()
	return
}

// OtherArch picks an architecture different from a (the next one in the fixed list).
func OtherArch(a *refsem.Arch) *refsem.Arch {
	all := refsem.Archs()
	for i, x := range all {
		if x == a || x.Name == a.Name {
			return all[(i+1)%len(all)]
		}
	}
	return all[0]
}

// EarlierShape derives a valid earlier shape of a policy. Variant 0: another default action, the last group dropped (or,
// with one group, its action changed). Variant 1: the same default action and number of groups, but every group has
// another action and the first non-empty list lost its first entry (for caches keyed by the coarse shape of the policy).
func EarlierShape(p *seccomp.Policy, variant int) *seccomp.Policy {
	if variant%2 == 1 {
		q := &seccomp.Policy{DefaultAction: p.DefaultAction, Syscalls: make([]seccomp.SyscallGroup, len(p.Syscalls))}
		dropped := false
		for i, g := range p.Syscalls {
			g.Action ^= 0x00010000
			if !dropped && len(g.Names) > 0 {
				g.Names = g.Names[1:len(g.Names):len(g.Names)]
				dropped = true
			} else if !dropped && len(g.NamesWithCondtions) > 0 {
				g.NamesWithCondtions = g.NamesWithCondtions[1:len(g.NamesWithCondtions):len(g.NamesWithCondtions)]
				dropped = true
			}
			q.Syscalls[i] = g
		}
		return q
	}
	q := &seccomp.Policy{DefaultAction: seccomp.ActionLog}
	if p.DefaultAction == seccomp.ActionLog {
		q.DefaultAction = seccomp.ActionAllow
	}
	if len(p.Syscalls) > 1 {
		q.Syscalls = p.Syscalls[: len(p.Syscalls)-1 : len(p.Syscalls)-1]
	} else if len(p.Syscalls) == 1 {
		g := p.Syscalls[0]
		g.Action ^= 0x00010000
		q.Syscalls = []seccomp.SyscallGroup{g}
	}
	return q
}

// Raw encodes the instructions with bpf.Assemble (what LoadFilter does).
func Raw(insts []bpf.Instruction) ([]cbpf.Insn, error) {
	raw, err := bpf.Assemble(insts)
	if err != nil {
		return nil, err
	}
	out := make([]cbpf.Insn, len(raw))
	for i, r := range raw {
		out[i] = cbpf.Insn{Op: r.Op, Jt: r.Jt, Jf: r.Jf, K: r.K}
	}
	return out, nil
}

// Outcome of checking one policy.
type Outcome struct {
	Verdict   refsem.Verdict
	Accepted  bool
	Err       error
	Prog      []cbpf.Insn
	Events    uint64
	Issues    []Issue
	Hits      []uint32
	Decisions map[uint32]struct{}
	Exact     bool
}

type Options struct {
	Big           bool
	ExtraArch     []uint32 // additional architecture words (C04)
	ExtraNr       []uint32 // additional syscall numbers
	Filler        uint32   // value of words nobody mentions
	MaxEvents     uint64   // cap on the product (0 = 1<<24)
	MaxIssues     int      // per policy
	SkipDecision  bool
	Staged        bool            // assemble the policy value in an earlier shape first (see CompileAfter)
	StagedVariant int             // modulo 3: 0 and 1 are the EarlierShape variants, 2 = the same value compiled for another architecture first
	Prior         *seccomp.Policy // explicit earlier shape (implies Staged)
}

// AllowedReturns is the closed return set of C05.
func AllowedReturns(a *refsem.Arch, p *seccomp.Policy) map[uint32]bool {
	m := map[uint32]bool{refsem.Enc(p.DefaultAction): true}
	for _, g := range p.Syscalls {
		m[refsem.Enc(g.Action)] = true
	}
	if a.IsX86_64 {
		m[refsem.RetErrno|refsem.ENOSYS] = true
	}
	return m
}

// CheckPolicy is the whole per-policy pipeline.
func CheckPolicy(a *refsem.Arch, p *seccomp.Policy, o Options) *Outcome {
	out := &Outcome{Exact: true}
	if o.MaxIssues == 0 {
		o.MaxIssues = 3
	}
	add := func(is Issue) {
		if len(out.Issues) < o.MaxIssues {
			out.Issues = append(out.Issues, is)
		}
	}
	var why string
	out.Verdict, why = refsem.Valid(a, p)
	var insts []bpf.Instruction
	var err error
	var pan any
	switch {
	case o.Prior != nil:
		insts, err, pan = CompileAfter(a, o.Prior, p, o.Big)
	case o.Staged && o.StagedVariant%4 == 3 && len(p.Syscalls) > 0:
		// shrinking: a LONGER policy (one more group, in the same backing array) was compiled first; the policy under test
		// is its prefix. What the first compilation wrote into the shared group elements must not reach the second.
		arr := make([]seccomp.SyscallGroup, len(p.Syscalls), len(p.Syscalls)+1)
		copy(arr, p.Syscalls)
		extra := seccomp.SyscallGroup{Action: seccomp.ActionKillProcess, Names: []string{a.SortedNames()[len(a.SortedNames())/2]}}
		prior := &seccomp.Policy{DefaultAction: p.DefaultAction, Syscalls: append(arr, extra)}
		final := &seccomp.Policy{DefaultAction: p.DefaultAction, Syscalls: arr}
		insts, err, pan = CompileAfter(a, prior, final, o.Big)
	case o.Staged && o.StagedVariant%4 == 2:
		// the very same value (same Syscalls array) was compiled for another architecture before
		insts, err, pan = CompileAfterOn(a, OtherArch(a), p, p, o.Big)
	case o.Staged:
		insts, err, pan = CompileAfter(a, EarlierShape(p, o.StagedVariant%4), p, o.Big)
	default:
		insts, err, pan = Compile(a, p, o.Big)
	}
	if pan != nil {
		add(Issue{Class: ClsPanic, What: fmt.Sprintf("Assemble panicked: %v", pan)})
		return out
	}
	out.Err = err
	if err != nil {
		if insts != nil {
			add(Issue{Class: ClsErrShape, What: "error returned together with a non-nil program"})
		}
		if out.Verdict == refsem.MustAccept {
			add(Issue{Class: ClsReject, What: "defect-free policy rejected: " + err.Error()})
		}
		return out
	}
	out.Accepted = true
	if out.Verdict == refsem.MustReject {
		add(Issue{Class: ClsAccept, What: "policy with defect (" + why + ") accepted"})
	}
	prog, rerr := Raw(insts)
	if rerr != nil {
		add(Issue{Class: ClsVerifier, What: "bpf.Assemble failed: " + rerr.Error()})
		return out
	}
	out.Prog = prog
	if len(prog) <= cbpf.MaxInsns {
		if verr := cbpf.Check(prog); verr != nil {
			add(Issue{Class: ClsVerifier, What: "kernel verifier rejects: " + verr.Error()})
		}
	}
	if ferr := cbpf.Fragment(prog); ferr != nil {
		add(Issue{Class: ClsVerifier, What: ferr.Error()})
		out.Exact = false
		return out
	}
	allowed := AllowedReturns(a, p)
	for pc, f := range prog {
		if f.Op == cbpf.OpRetK && !allowed[f.K] {
			add(Issue{Class: ClsVerifier, What: fmt.Sprintf("pc %d returns %#x which is not the default, a group action or ERRNO|ENOSYS", pc, f.K)})
			break
		}
	}
	if o.SkipDecision || out.Verdict == refsem.MustReject {
		return out
	}
	// exact partition
	var c refsem.Consts
	c.AddPolicy(a, p, o.Big)
	if err := c.AddProgram(prog); err != nil {
		add(Issue{Class: ClsVerifier, What: err.Error()})
		out.Exact = false
		return out
	}
	for _, v := range o.ExtraArch {
		c[1].Order[v] = true
	}
	for _, v := range o.ExtraNr {
		if c[0].Order == nil {
			c[0].Order = map[uint32]bool{}
		}
		c[0].Order[v] = true
	}
	prod := c.Product(o.Filler)
	if !prod.Exact {
		out.Exact = false
	}
	max := o.MaxEvents
	if max == 0 {
		max = 1 << 24
	}
	if prod.Size() > max {
		out.Exact = false
		add(Issue{Class: ClsInexact, What: fmt.Sprintf("cell product %d exceeds cap %d", prod.Size(), max)})
		return out
	}
	out.Hits = make([]uint32, len(prog))
	out.Decisions = map[uint32]struct{}{}
	prod.Each(func(d *cbpf.Data) bool {
		out.Events++
		got, rerr := cbpf.Run(prog, d, out.Hits, nil)
		ev := refsem.FromWords(d, o.Big)
		want := refsem.Decide(a, p, ev)
		if rerr != nil {
			e := ev
			if ev.Arch != a.ID || (a.IsX86_64 && ev.Nr >= refsem.X32Bit) {
				// a foreign / x32 event on which the program cannot be executed does not receive its prescribed action either
				add(Issue{Class: ClsForeign, What: "execution error on a foreign-architecture / x32 event: " + rerr.Error(), Event: &e, Want: want})
			}
			add(Issue{Class: ClsVerifier, What: "execution error: " + rerr.Error(), Event: &e, Want: want})
			return len(out.Issues) < o.MaxIssues
		}
		out.Decisions[got] = struct{}{}
		if got != want {
			e := ev
			cls := ClsDecision
			if ev.Arch != a.ID || (a.IsX86_64 && ev.Nr >= refsem.X32Bit) {
				cls = ClsForeign
			}
			// keep at most one issue per class per policy so that both kinds are seen
			for _, is := range out.Issues {
				if is.Class == cls {
					return true
				}
			}
			out.Issues = append(out.Issues, Issue{Class: cls, What: fmt.Sprintf("decision %#x, reference %#x", got, want), Event: &e, Got: got, Want: want})
		}
		return true
	})
	return out
}

// Unreached returns the indices of instructions no event executed.
func (o *Outcome) Unreached() []int {
	var u []int
	for i, h := range o.Hits {
		if h == 0 {
			u = append(u, i)
		}
	}
	return u
}
