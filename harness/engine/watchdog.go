package engine

import (
	"sync"
	"sync/atomic"
	"time"
)

// A watchdog for calls into the library under test that might not terminate (a broken resolver loop, say): every call
// is bracketed by Enter/Leave; a monitor goroutine reports a call that has been running for more than HangLimit through
// OnHang, which is expected to record a violation and end the process (a spinning goroutine cannot be stopped).

var HangLimit = 30 * time.Second

// OnHang is set by the check; describe is the replay payload of the hanging call.
var OnHang func(describe func() any)

type slot struct {
	start    int64 // unix nanoseconds, 0 = free
	describe atomic.Value
}

var (
	slots     [512]slot
	slotNext  uint32
	monitorOn sync.Once
)

type Token int

func Enter(describe func() any) Token {
	monitorOn.Do(func() { go monitor() })
	now := time.Now().UnixNano()
	for {
		i := atomic.AddUint32(&slotNext, 1) % uint32(len(slots))
		if atomic.CompareAndSwapInt64(&slots[i].start, 0, now) {
			slots[i].describe.Store(describe)
			return Token(i)
		}
	}
}

func Leave(t Token) { atomic.StoreInt64(&slots[t].start, 0) }

func monitor() {
	for {
		time.Sleep(2 * time.Second)
		now := time.Now().UnixNano()
		for i := range slots {
			st := atomic.LoadInt64(&slots[i].start)
			if st != 0 && now-st > int64(HangLimit) {
				if f := OnHang; f != nil {
					d, _ := slots[i].describe.Load().(func() any)
					f(d)
				}
				return
			}
		}
	}
}
