// Package evid writes evidence files, replay files and VIOLATION /
// KNOWN-FINDING lines, and matches violations against known_findings.json.
package evid

import (
	"crypto/sha256"
	"encoding/hex"
	"encoding/json"
	"fmt"
	"os"
	"path/filepath"
	"regexp"
	"sort"
	"strconv"
	"sync"
	"time"
)

func Root() string {
	if r := os.Getenv("VERIF_ROOT"); r != "" {
		return r
	}
	return "/verif"
}

// OutRoot is where evidence and replay files go: /verif normally, a scratch directory when the check is
// pointed at a scratch copy of the repository (self-tests), so that real evidence is never overwritten.
func OutRoot() string {
	if r := os.Getenv("VERIF_OUT"); r != "" {
		return r
	}
	return Root()
}

type Finding struct {
	Kind     string `json:"kind"` // "finding" or "fixed"
	Property string `json:"property"`
	Key      string `json:"key"` // regular expression matched against the whole violation key
	What     string `json:"what"`
	Commit   string `json:"commit,omitempty"`
}

type violation struct {
	Key    string
	What   string
	Replay string
	Count  int
}

// Ctx accumulates the result of one check run.
type Ctx struct {
	ID, Tier, Level string
	Seed            int64
	start           time.Time

	mu          sync.Mutex
	Cov         map[string]any
	samples     []any
	maxSamples  int
	viol        map[string]*violation
	violOrder   []string
	known       []Finding
	knownHit    map[int]int
	Assumptions []string
	counters    map[string]int64
	flaky       int
	MaxReplays  int
	capped      []string
}

// Replaying is set by the dispatcher when one recorded case is re-executed (--replay): the replay files of earlier runs,
// the one being replayed among them, are then left alone and no new ones are written.
var Replaying bool

func New(id, tier, level string) *Ctx {
	seed, _ := strconv.ParseInt(os.Getenv("VERIF_SEED"), 10, 64)
	c := &Ctx{ID: id, Tier: tier, Level: level, Seed: seed, start: time.Now(), Cov: map[string]any{},
		viol: map[string]*violation{}, knownHit: map[int]int{}, counters: map[string]int64{}, maxSamples: 6, MaxReplays: 8}
	if n, err := strconv.Atoi(os.Getenv("VERIF_MAX_REPLAYS")); err == nil && n > 0 {
		c.MaxReplays = n
	}
	if !Replaying {
		os.RemoveAll(filepath.Join(OutRoot(), "replays", id))
	}
	b, err := os.ReadFile(filepath.Join(Root(), "known_findings.json"))
	if err == nil {
		var all []Finding
		if err := json.Unmarshal(b, &all); err != nil {
			fmt.Fprintf(os.Stderr, "known_findings.json: %v\n", err)
			os.Exit(2)
		}
		for _, f := range all {
			if f.Property == id && f.Kind == "finding" {
				c.known = append(c.known, f)
			}
		}
	}
	return c
}

// Count adds to a named counter (reported under coverage.counters).
func (c *Ctx) Count(name string, n int64) {
	c.mu.Lock()
	c.counters[name] += n
	c.mu.Unlock()
}

func (c *Ctx) Counter(name string) int64 {
	c.mu.Lock()
	defer c.mu.Unlock()
	return c.counters[name]
}

// Sample records an explored case (only the first few per label are kept,
// rotated by VERIF_SEED).
func (c *Ctx) Sample(v any) {
	c.mu.Lock()
	if len(c.samples) < c.maxSamples {
		c.samples = append(c.samples, v)
	}
	c.mu.Unlock()
}

// Capped records that a bound or wall-clock cap was hit (run is then not exhaustive).
func (c *Ctx) Capped(what string) {
	c.mu.Lock()
	c.capped = append(c.capped, what)
	c.mu.Unlock()
}

func (c *Ctx) Flaky() { c.mu.Lock(); c.flaky++; c.mu.Unlock() }

// Violation records a violation under a stable key. replay is any JSON-able
// description sufficient to re-execute the case.
func (c *Ctx) Violation(key, what string, replay any) {
	c.mu.Lock()
	defer c.mu.Unlock()
	if v, ok := c.viol[key]; ok {
		v.Count++
		return
	}
	v := &violation{Key: key, What: what, Count: 1}
	c.viol[key] = v
	c.violOrder = append(c.violOrder, key)
	if len(c.violOrder) <= c.MaxReplays && !Replaying {
		dir := filepath.Join(OutRoot(), "replays", c.ID)
		os.MkdirAll(dir, 0o755)
		h := sha256.Sum256([]byte(key))
		path := filepath.Join(dir, hex.EncodeToString(h[:6])+".json")
		b, _ := json.MarshalIndent(map[string]any{"property": c.ID, "key": key, "what": what, "case": replay}, "", " ")
		os.WriteFile(path, b, 0o644)
		v.Replay = path
	}
}

// HasKey reports whether a violation with exactly this key was recorded.
func (c *Ctx) HasKey(key string) bool {
	c.mu.Lock()
	defer c.mu.Unlock()
	_, ok := c.viol[key]
	return ok
}

// Describe lists the recorded violations (key and text).
func (c *Ctx) Describe() []string {
	c.mu.Lock()
	defer c.mu.Unlock()
	var out []string
	for _, k := range c.violOrder {
		out = append(out, "  "+k+": "+c.viol[k].What)
	}
	return out
}

func (c *Ctx) NumViolations() int { c.mu.Lock(); defer c.mu.Unlock(); return len(c.viol) }

// Finish writes the evidence file, prints the result lines and returns the exit code.
func (c *Ctx) Finish() int {
	c.mu.Lock()
	defer c.mu.Unlock()
	unknown := 0
	res := make([]*regexp.Regexp, len(c.known))
	for i, f := range c.known {
		res[i] = regexp.MustCompile("^(?:" + f.Key + ")$")
	}
	knownPrinted := map[int]bool{}
	firstReplay := ""
	for _, k := range c.violOrder {
		v := c.viol[k]
		matched := -1
		for i := range c.known {
			if res[i].MatchString(k) {
				matched = i
				break
			}
		}
		if matched >= 0 {
			if !knownPrinted[matched] {
				fmt.Printf("KNOWN-FINDING: property=%s %s\n", c.ID, c.known[matched].What)
				knownPrinted[matched] = true
			}
			c.knownHit[matched] += v.Count
			continue
		}
		unknown++
		if v.Replay != "" {
			if firstReplay == "" {
				firstReplay = v.Replay
			}
			fmt.Printf("VIOLATION property=%s replay=%s\n", c.ID, v.Replay)
			fmt.Printf("  key=%s count=%d %s\n", v.Key, v.Count, v.What)
		}
	}
	if unknown > c.MaxReplays {
		fmt.Printf("  (%d further distinct violations without replay files; first: %s)\n", unknown-c.MaxReplays, firstReplay)
	}
	cov := c.Cov
	if len(c.counters) > 0 {
		cov["counters"] = c.counters
	}
	if _, ok := cov["samples"]; !ok {
		cov["samples"] = c.samples
	}
	if len(c.capped) > 0 {
		cov["exhaustive"] = false
		cov["caps_hit"] = c.capped
	} else if _, ok := cov["exhaustive"]; !ok {
		cov["exhaustive"] = true
	}
	if c.flaky > 0 {
		cov["flaky_non_reproducing"] = c.flaky
	}
	if len(c.known) > 0 {
		kh := map[string]int{}
		for i, f := range c.known {
			kh[f.Key] = c.knownHit[i]
		}
		cov["known_findings_hit"] = kh
	}
	ev := map[string]any{
		"property_id": c.ID, "tier": c.Tier, "seed": c.Seed, "level": c.Level, "coverage": cov,
		"assumptions": c.Assumptions, "wall_s": time.Since(c.start).Seconds(), "violations": unknown,
	}
	if c.Assumptions == nil {
		ev["assumptions"] = []string{}
	}
	b, _ := json.MarshalIndent(ev, "", " ")
	dir := filepath.Join(OutRoot(), "evidence")
	os.MkdirAll(dir, 0o755)
	if err := os.WriteFile(filepath.Join(dir, c.ID+".json"), append(b, '\n'), 0o644); err != nil {
		fmt.Fprintln(os.Stderr, "cannot write evidence:", err)
		return 2
	}
	keys := make([]string, 0, len(c.counters))
	for k := range c.counters {
		keys = append(keys, k)
	}
	sort.Strings(keys)
	fmt.Printf("%s %s: wall=%.1fs violations=%d exhaustive=%v", c.ID, c.Tier, time.Since(c.start).Seconds(), unknown, cov["exhaustive"])
	for _, k := range keys {
		fmt.Printf(" %s=%d", k, c.counters[k])
	}
	fmt.Println()
	if unknown > 0 {
		return 1
	}
	return 0
}
