module verif/harness

go 1.21

require (
	github.com/elastic/go-seccomp-bpf v0.0.0-00010101000000-000000000000
	github.com/elastic/go-ucfg v0.8.8
	golang.org/x/net v0.24.0
	gopkg.in/yaml.v2 v2.4.0
)

require golang.org/x/sys v0.19.0

replace github.com/elastic/go-seccomp-bpf => /repo
