// Package instr rewrites Go source files of the library under test: it inserts a
// scheduling point before every statement of every function body and brackets
// functions that iterate over maps (nondeterministic number of steps) as atomic.
package instr

import (
	"bytes"
	"fmt"
	"go/ast"
	"go/format"
	"go/parser"
	"go/token"
	"path/filepath"
)

// Result of instrumenting one file.
type Result struct {
	Source  []byte
	Points  int
	Atomics []string // functions bracketed as atomic
}

// pkgInfo collects syntactic facts used to recognise map iteration without type checking.
type pkgInfo struct {
	onceNames map[string]bool // variables / struct fields declared as sync.Once
	mapVars   map[string]bool // package-level variables of map type
	mapFields map[string]bool // struct field names of map type
	mapFuncs  map[string]bool // functions returning a map
}

func isMapExpr(e ast.Expr) bool {
	switch t := e.(type) {
	case *ast.MapType:
		return true
	case *ast.CompositeLit:
		_, ok := t.Type.(*ast.MapType)
		return ok
	case *ast.CallExpr:
		if id, ok := t.Fun.(*ast.Ident); ok && id.Name == "make" && len(t.Args) > 0 {
			_, ok := t.Args[0].(*ast.MapType)
			return ok
		}
	}
	return false
}

func collect(files []*ast.File) *pkgInfo {
	pi := &pkgInfo{mapVars: map[string]bool{}, mapFields: map[string]bool{}, mapFuncs: map[string]bool{}, onceNames: map[string]bool{}}
	isOnce := func(e ast.Expr) bool {
		if se, ok := e.(*ast.SelectorExpr); ok {
			if x, ok := se.X.(*ast.Ident); ok && x.Name == "sync" && se.Sel.Name == "Once" {
				return true
			}
		}
		return false
	}
	for _, f := range files {
		for _, d := range f.Decls {
			switch dd := d.(type) {
			case *ast.GenDecl:
				for _, sp := range dd.Specs {
					switch s := sp.(type) {
					case *ast.ValueSpec:
						for i, n := range s.Names {
							if s.Type != nil && isOnce(s.Type) {
								pi.onceNames[n.Name] = true
							}
							if s.Type != nil && isMapExpr(s.Type) {
								pi.mapVars[n.Name] = true
							}
							if i < len(s.Values) && isMapExpr(s.Values[i]) {
								pi.mapVars[n.Name] = true
							}
						}
					case *ast.TypeSpec:
						if st, ok := s.Type.(*ast.StructType); ok {
							for _, fl := range st.Fields.List {
								if isOnce(fl.Type) {
									for _, n := range fl.Names {
										pi.onceNames[n.Name] = true
									}
								}
								if _, ok := fl.Type.(*ast.MapType); ok {
									for _, n := range fl.Names {
										pi.mapFields[n.Name] = true
									}
								}
							}
						}
					}
				}
			case *ast.FuncDecl:
				if dd.Type.Results != nil {
					for _, r := range dd.Type.Results.List {
						if _, ok := r.Type.(*ast.MapType); ok {
							pi.mapFuncs[dd.Name.Name] = true
						}
					}
				}
			}
		}
	}
	return pi
}

// rangesOverMap reports whether fn contains a range statement over something that is syntactically a map.
func (pi *pkgInfo) rangesOverMap(fn *ast.FuncDecl) bool {
	local := map[string]bool{}
	if fn.Type.Params != nil {
		for _, p := range fn.Type.Params.List {
			if _, ok := p.Type.(*ast.MapType); ok {
				for _, n := range p.Names {
					local[n.Name] = true
				}
			}
		}
	}
	found := false
	ast.Inspect(fn.Body, func(n ast.Node) bool {
		switch s := n.(type) {
		case *ast.AssignStmt:
			for i, r := range s.Rhs {
				if i < len(s.Lhs) {
					if id, ok := s.Lhs[i].(*ast.Ident); ok {
						if isMapExpr(r) {
							local[id.Name] = true
						}
						if c, ok := r.(*ast.CallExpr); ok {
							if f, ok := c.Fun.(*ast.Ident); ok && pi.mapFuncs[f.Name] {
								local[id.Name] = true
							}
						}
					}
				}
			}
		case *ast.DeclStmt:
			if gd, ok := s.Decl.(*ast.GenDecl); ok {
				for _, sp := range gd.Specs {
					if vs, ok := sp.(*ast.ValueSpec); ok {
						for i, n := range vs.Names {
							if vs.Type != nil && isMapExpr(vs.Type) || i < len(vs.Values) && isMapExpr(vs.Values[i]) {
								local[n.Name] = true
							}
						}
					}
				}
			}
		case *ast.RangeStmt:
			switch x := s.X.(type) {
			case *ast.Ident:
				if local[x.Name] || pi.mapVars[x.Name] {
					found = true
				}
			case *ast.SelectorExpr:
				if pi.mapFields[x.Sel.Name] || pi.mapVars[x.Sel.Name] {
					found = true
				}
			case *ast.CompositeLit, *ast.CallExpr:
				if isMapExpr(x) {
					found = true
				}
				if c, ok := x.(*ast.CallExpr); ok {
					if f, ok := c.Fun.(*ast.Ident); ok && pi.mapFuncs[f.Name] {
						found = true
					}
				}
			}
		}
		return true
	})
	return found
}

// Package instruments all given files (of one package). hook is the name of the point function, enter/exit the
// atomic brackets (all declared by an overlay-added file of the same package).
func Package(paths []string) (map[string]*Result, error) {
	fset := token.NewFileSet()
	var files []*ast.File
	for _, p := range paths {
		f, err := parser.ParseFile(fset, p, nil, parser.ParseComments)
		if err != nil {
			return nil, err
		}
		files = append(files, f)
	}
	pi := collect(files)
	curPkg = pi
	out := map[string]*Result{}
	for i, f := range files {
		res := &Result{}
		base := filepath.Base(paths[i])
		for _, d := range f.Decls {
			fn, ok := d.(*ast.FuncDecl)
			if !ok || fn.Body == nil || fn.Name.Name == "init" {
				continue
			}
			if fn.Name.Name == "verifPoint" || fn.Name.Name == "verifSeam" {
				continue
			}
			name := fn.Name.Name
			if fn.Recv != nil && len(fn.Recv.List) > 0 {
				name = fmt.Sprintf("(%s).%s", exprString(fn.Recv.List[0].Type), name)
			}
			instrumentBlock(fset, base, fn.Body, res)
			if pi.rangesOverMap(fn) {
				res.Atomics = append(res.Atomics, name)
				enter := &ast.ExprStmt{X: &ast.CallExpr{Fun: ast.NewIdent("verifAtomicEnter")}}
				exit := &ast.DeferStmt{Call: &ast.CallExpr{Fun: ast.NewIdent("verifAtomicExit")}}
				// keep the entry point first so that the call itself is a scheduling point
				fn.Body.List = append([]ast.Stmt{fn.Body.List[0], enter, exit}, fn.Body.List[1:]...)
			}
		}
		var buf bytes.Buffer
		if err := format.Node(&buf, fset, f); err != nil {
			return nil, err
		}
		res.Source = buf.Bytes()
		out[paths[i]] = res
	}
	return out, nil
}

func exprString(e ast.Expr) string {
	switch t := e.(type) {
	case *ast.Ident:
		return t.Name
	case *ast.StarExpr:
		return "*" + exprString(t.X)
	}
	return "?"
}

var curPkg *pkgInfo

// rewriteBlocking replaces blocking synchronisation statements by scheduler-aware forms:
//
//	X.Lock()   -> verifBlockUntil(site, func() bool { return X.TryLock() })
//	X.RLock()  -> verifBlockUntil(site, func() bool { return X.TryRLock() })
//	O.Do(f)    -> verifOnceDo(&O, f)            (O declared as sync.Once)
func rewriteBlocking(site string, s ast.Stmt) ast.Stmt {
	es, ok := s.(*ast.ExprStmt)
	if !ok {
		return s
	}
	call, ok := es.X.(*ast.CallExpr)
	if !ok {
		return s
	}
	sel, ok := call.Fun.(*ast.SelectorExpr)
	if !ok {
		return s
	}
	lit := &ast.BasicLit{Kind: token.STRING, Value: fmt.Sprintf("%q", site)}
	switch {
	case (sel.Sel.Name == "Lock" || sel.Sel.Name == "RLock") && len(call.Args) == 0:
		try := "TryLock"
		if sel.Sel.Name == "RLock" {
			try = "TryRLock"
		}
		fn := &ast.FuncLit{Type: &ast.FuncType{Params: &ast.FieldList{}, Results: &ast.FieldList{List: []*ast.Field{{Type: ast.NewIdent("bool")}}}},
			Body: &ast.BlockStmt{List: []ast.Stmt{&ast.ReturnStmt{Results: []ast.Expr{&ast.CallExpr{Fun: &ast.SelectorExpr{X: sel.X, Sel: ast.NewIdent(try)}}}}}}}
		return &ast.ExprStmt{X: &ast.CallExpr{Fun: ast.NewIdent("verifBlockUntil"), Args: []ast.Expr{lit, fn}}}
	case sel.Sel.Name == "Do" && len(call.Args) == 1 && curPkg != nil:
		name := ""
		switch x := sel.X.(type) {
		case *ast.Ident:
			name = x.Name
		case *ast.SelectorExpr:
			name = x.Sel.Name
		}
		if curPkg.onceNames[name] {
			return &ast.ExprStmt{X: &ast.CallExpr{Fun: ast.NewIdent("verifOnceDo"), Args: []ast.Expr{&ast.UnaryExpr{Op: token.AND, X: sel.X}, call.Args[0]}}}
		}
	}
	return s
}

func pointStmt(site string) ast.Stmt {
	return &ast.ExprStmt{X: &ast.CallExpr{Fun: ast.NewIdent("verifPoint"), Args: []ast.Expr{&ast.BasicLit{Kind: token.STRING, Value: fmt.Sprintf("%q", site)}}}}
}

func instrumentBlock(fset *token.FileSet, base string, b *ast.BlockStmt, res *Result) {
	if b == nil {
		return
	}
	b.List = instrumentList(fset, base, b.List, res)
	if len(b.List) == 0 {
		b.List = []ast.Stmt{pointStmt(fmt.Sprintf("%s:%d", base, fset.Position(b.Lbrace).Line))}
		res.Points++
	}
}

func instrumentList(fset *token.FileSet, base string, list []ast.Stmt, res *Result) []ast.Stmt {
	var out []ast.Stmt
	for _, s := range list {
		site := fmt.Sprintf("%s:%d", base, fset.Position(s.Pos()).Line)
		out = append(out, pointStmt(site))
		res.Points++
		instrumentStmt(fset, base, s, res)
		out = append(out, rewriteBlocking(site, s))
	}
	return out
}

func instrumentStmt(fset *token.FileSet, base string, s ast.Stmt, res *Result) {
	switch t := s.(type) {
	case *ast.BlockStmt:
		instrumentBlock(fset, base, t, res)
	case *ast.IfStmt:
		instrumentBlock(fset, base, t.Body, res)
		if t.Else != nil {
			instrumentStmt(fset, base, t.Else, res)
		}
	case *ast.ForStmt:
		instrumentBlock(fset, base, t.Body, res)
	case *ast.RangeStmt:
		instrumentBlock(fset, base, t.Body, res)
	case *ast.SwitchStmt:
		for _, c := range t.Body.List {
			cc := c.(*ast.CaseClause)
			cc.Body = instrumentList(fset, base, cc.Body, res)
		}
	case *ast.TypeSwitchStmt:
		for _, c := range t.Body.List {
			cc := c.(*ast.CaseClause)
			cc.Body = instrumentList(fset, base, cc.Body, res)
		}
	case *ast.SelectStmt:
		for _, c := range t.Body.List {
			cc := c.(*ast.CommClause)
			cc.Body = instrumentList(fset, base, cc.Body, res)
		}
	case *ast.LabeledStmt:
		instrumentStmt(fset, base, t.Stmt, res)
	}
	switch s.(type) {
	case *ast.BlockStmt, *ast.LabeledStmt:
		return // their statements were handled by the recursion above
	}
	// function literals inside the statement
	ast.Inspect(s, func(n ast.Node) bool {
		if fl, ok := n.(*ast.FuncLit); ok {
			instrumentBlock(fset, base, fl.Body, res)
			return false
		}
		if _, ok := n.(*ast.BlockStmt); ok && n != ast.Node(s) {
			return false // nested blocks were handled above
		}
		return true
	})
}

// HookSource is the overlay-added file that declares the hooks in a package.
func HookSource(pkg string) []byte {
	return []byte(fmt.Sprintf(`package %s

// added by the verification harness through go build -overlay

import "sync"

var VerifPoint func(site string)
var VerifAtomicEnter, VerifAtomicExit func()
var VerifBlockUntil func(site string, try func() bool)

func verifPoint(site string) {
	if f := VerifPoint; f != nil {
		f(site)
	}
}

func verifAtomicEnter() {
	if f := VerifAtomicEnter; f != nil {
		f()
	}
}

func verifAtomicExit() {
	if f := VerifAtomicExit; f != nil {
		f()
	}
}

// verifBlockUntil stands for a blocking lock operation: under the cooperative scheduler the thread yields until
// try succeeds; without it, it spins on try.
func verifBlockUntil(site string, try func() bool) {
	if f := VerifBlockUntil; f != nil {
		f(site, try)
		return
	}
	for !try() {
	}
}

type verifOnceSt struct{ running, done bool }

var verifOnceState = map[*sync.Once]*verifOnceSt{}

// verifOnceDo stands for sync.Once.Do: a second caller that arrives while the first is still inside yields to the
// scheduler instead of blocking the operating system thread. Only one logical thread runs at a time, so the state map
// needs no lock under the scheduler; without the scheduler the real Once is used directly.
func verifOnceDo(o *sync.Once, f func()) {
	if VerifBlockUntil == nil {
		o.Do(f)
		return
	}
	st := verifOnceState[o]
	if st == nil {
		st = &verifOnceSt{}
		verifOnceState[o] = st
	}
	if st.done {
		return
	}
	if st.running {
		VerifBlockUntil("sync.Once.Do", func() bool { return st.done })
		return
	}
	st.running = true
	o.Do(f)
	st.done = true
}
`, pkg))
}
