// Package kmodel is a small executable model of the kernel rules that matter to
// LoadFilter: no_new_privs, the privilege check of seccomp(2), filter stacks per
// thread, and thread-sync (SECCOMP_FILTER_FLAG_TSYNC) with its refusal rule.
// Every transition explored on the model is replayed against the real kernel.
package kmodel

import (
	"fmt"
	"sort"
	"strings"
)

// Filter kinds a load can request.
const (
	KindA        = "A"        // valid: errno on getppid
	KindB        = "B"        // valid: errno on getuid
	KindInvalid  = "invalid"  // policy with an unknown syscall name: rejected before any kernel contact
	KindOversize = "oversize" // valid policy compiling to > 4096 instructions: kernel EINVAL
	KindBadFlag  = "badflag"  // valid policy, undefined flag bit: kernel EINVAL
	KindDenySec  = "denysec"  // valid: errno on seccomp(2) itself - once attached, every later seccomp(2) of that thread answers EPERM
)

var Kinds = []string{KindA, KindB, KindInvalid, KindOversize, KindBadFlag, KindDenySec}

// Thread is the kernel-visible seccomp state of one thread.
type Thread struct {
	NNP   bool
	Stack []int // filter ids, oldest first
	Kinds []string
}

// State: Threads[0..n-1] are the harness threads; Others is the common state of every other thread of the
// process (runtime threads never load filters themselves; they change only through thread-sync, and threads
// born later are cloned from one of them).
type State struct {
	Priv    bool
	Threads []Thread
	Others  Thread
	NextID  int
}

func New(priv bool, n int) *State { return &State{Priv: priv, Threads: make([]Thread, n), NextID: 1} }

func (s *State) Clone() *State {
	c := &State{Priv: s.Priv, NextID: s.NextID, Others: cloneT(s.Others)}
	for _, t := range s.Threads {
		c.Threads = append(c.Threads, cloneT(t))
	}
	return c
}
func cloneT(t Thread) Thread {
	return Thread{NNP: t.NNP, Stack: append([]int(nil), t.Stack...), Kinds: append([]string(nil), t.Kinds...)}
}

type Op struct {
	Op    string `json:"op"` // "load" | "supported"
	T     int    `json:"t"`
	TSync bool   `json:"tsync"`
	NNP   bool   `json:"nnp"`
	Kind  string `json:"kind"`
	Log   bool   `json:"log,omitempty"` // SECCOMP_FILTER_FLAG_LOG: no effect on the modelled state
}

func (o Op) String() string {
	if o.Op == "supported" {
		return fmt.Sprintf("T%d.Supported()", o.T)
	}
	if o.Log {
		return fmt.Sprintf("T%d.Load(%s,tsync=%v,nnp=%v,log)", o.T, o.Kind, o.TSync, o.NNP)
	}
	return fmt.Sprintf("T%d.Load(%s,tsync=%v,nnp=%v)", o.T, o.Kind, o.TSync, o.NNP)
}

// Outcome predicted by the model for one operation.
type Outcome struct {
	Attached    bool   // the kernel attached a new filter
	Reason      string // "", "invalid-policy", "EINVAL", "EACCES", "tsync-refused"
	MustBeError bool   // LoadFilter must return non-nil (property C09)
	ReachedKern bool
	Supported   bool // for "supported": what the probe can find out on this thread
}

func (t Thread) deniesSeccomp() bool {
	for _, k := range t.Kinds {
		if k == KindDenySec {
			return true
		}
	}
	return false
}

func isAncestor(parent, child []int) bool {
	// parent is an ancestor of (or equal to) child iff parent's newest filter occurs in child's chain;
	// with stacks as lists of unique ids this is "parent is a prefix of child".
	if len(parent) == 0 {
		return true
	}
	if len(parent) > len(child) {
		return false
	}
	for i := range parent {
		if parent[i] != child[i] {
			return false
		}
	}
	return true
}

// Apply performs op on s (mutating it) and returns the predicted outcome.
func (s *State) Apply(o Op) Outcome {
	if o.Op == "supported" {
		return Outcome{ReachedKern: true, Supported: !s.Threads[o.T].deniesSeccomp()}
	}
	t := &s.Threads[o.T]
	if o.Kind == KindInvalid {
		return Outcome{Reason: "invalid-policy", MustBeError: true}
	}
	if o.NNP {
		t.NNP = true
	}
	out := Outcome{ReachedKern: true}
	// a filter of the thread that answers errno to seccomp(2) runs before the system call does anything
	if t.deniesSeccomp() {
		out.Reason, out.MustBeError = "EPERM-by-filter", true
		return out
	}
	// seccomp(2): flag validation and program length come first (EINVAL), then the privilege check,
	// then program copy/verification; all of these leave the state unchanged.
	if o.Kind == KindBadFlag {
		out.Reason, out.MustBeError = "EINVAL", true
		return out
	}
	if o.Kind == KindOversize { // the length check precedes the privilege check in seccomp_prepare_filter
		out.Reason, out.MustBeError = "EINVAL", true
		return out
	}
	if !s.Priv && !t.NNP {
		out.Reason, out.MustBeError = "EACCES", true
		return out
	}
	if o.TSync {
		for i := range s.Threads {
			if i != o.T && !isAncestor(s.Threads[i].Stack, t.Stack) {
				out.Reason, out.MustBeError = "tsync-refused", true
				return out
			}
		}
		if !isAncestor(s.Others.Stack, t.Stack) {
			out.Reason, out.MustBeError = "tsync-refused", true
			return out
		}
	}
	id := s.NextID
	s.NextID++
	t.Stack = append(t.Stack, id)
	t.Kinds = append(t.Kinds, o.Kind)
	out.Attached = true
	if o.TSync {
		for i := range s.Threads {
			if i != o.T {
				nnp := s.Threads[i].NNP || t.NNP
				s.Threads[i] = cloneT(*t)
				s.Threads[i].NNP = nnp
			}
		}
		nnp := s.Others.NNP || t.NNP
		s.Others = cloneT(*t)
		s.Others.NNP = nnp
	}
	return out
}

// Observable is what /proc and probes can see of a thread.
type Observable struct {
	NNP     bool `json:"nnp"`
	Filters int  `json:"filters"`
	DenyA   bool `json:"deny_a"` // getppid answers EPERM
	DenyB   bool `json:"deny_b"` // getuid answers EPERM
}

func (t Thread) Observe() Observable {
	o := Observable{NNP: t.NNP, Filters: len(t.Stack)}
	for _, k := range t.Kinds {
		if k == KindA {
			o.DenyA = true
		}
		if k == KindB {
			o.DenyB = true
		}
	}
	return o
}

// Canon is a canonical key of the state for deduplication: filter ids are renamed in order of first
// occurrence (threads in index order, then others) so that only the ancestry structure remains.
// Threads are NOT sorted: the operations name threads, and thread 0.. are distinguishable by the ops applied later.
func (s *State) Canon() string {
	ren := map[int]int{}
	var b strings.Builder
	enc := func(t Thread) {
		fmt.Fprintf(&b, "%v[", t.NNP)
		for i, id := range t.Stack {
			if _, ok := ren[id]; !ok {
				ren[id] = len(ren) + 1
			}
			fmt.Fprintf(&b, "%d%s,", ren[id], t.Kinds[i])
		}
		b.WriteString("]")
	}
	fmt.Fprintf(&b, "priv=%v;", s.Priv)
	for _, t := range s.Threads {
		enc(t)
		b.WriteString(";")
	}
	enc(s.Others)
	return b.String()
}

// AllOps lists the operation alphabet for n threads.
func AllOps(n int) []Op {
	var ops []Op
	for t := 0; t < n; t++ {
		for _, k := range Kinds {
			for _, ts := range []bool{false, true} {
				for _, nnp := range []bool{false, true} {
					ops = append(ops, Op{Op: "load", T: t, TSync: ts, NNP: nnp, Kind: k})
					if k == KindA || k == KindB {
						ops = append(ops, Op{Op: "load", T: t, TSync: ts, NNP: nnp, Kind: k, Log: true})
					}
				}
			}
		}
	}
	ops = append(ops, Op{Op: "supported", T: 0})
	sort.SliceStable(ops, func(i, j int) bool { return false })
	return ops
}
