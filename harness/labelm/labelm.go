// Package labelm enumerates label programs (sequences of calls of the public
// Program builder), drives the real builder with them and compares the
// assembled result with an abstract label machine on every input.
package labelm

import (
	"fmt"

	seccomp "github.com/elastic/go-seccomp-bpf"
	"golang.org/x/net/bpf"

	"verif/harness/cbpf"
)

// Target positions: 0..k-1 = slot (the slot's jump instruction), k = tail Ret(a), k+1 = tail Ret(b), k+2 = tail Ld (followed by Ret(c)).
type Slot struct {
	TwoWay bool
	T, F   int // target positions (F only if TwoWay)
}

type Spec struct {
	Slots      []Slot
	Pads       []int // filler instructions after each slot
	PadJumps   bool  // filler made of short-jump pairs instead of loads
	ShareLabel bool  // jumps naming the same position share one label
	Prologue   int   // loads before the first slot (>=1 so that the accumulator holds the input)
}

// abstract label-level instruction
type linst struct {
	kind    byte // 'l' load, 'r' ret, 'j' jump
	val     uint32
	bit     uint32
	tl, fl  int // labels
	hasF    bool
	coreIdx int
}

// Watch, if set, is called before every Program.Assemble with the spec being assembled and returns the function to
// call afterwards (watchdog for non-terminating assemblies).
var Watch func(s *Spec) func()

type Built struct {
	spec   *Spec
	lprog  []linst
	labels map[int]int // label -> position in lprog
	prog   seccomp.Program
	Calls  int
}

const padBit = 1 << 31

func retVal(i int) uint32 { return 0x7ff00000 | uint32(0x100+i) }

// Build performs the same call sequence on the real builder and on the abstract machine.
func Build(s *Spec) *Built {
	b := &Built{labels: map[int]int{}, prog: seccomp.NewProgram(), spec: s.Clone()}
	p := &b.prog
	k := len(s.Slots)
	nextAbs := 0
	newLabel := func() (seccomp.Label, int) {
		b.Calls++
		nextAbs++
		return p.NewLabel(), nextAbs
	}
	type lab struct {
		real seccomp.Label
		abs  int
	}
	setLabel := func(l lab) {
		b.Calls++
		p.SetLabel(l.real)
		b.labels[l.abs] = len(b.lprog)
	}
	ld := func() {
		b.Calls++
		p.LdLo(0)
		b.lprog = append(b.lprog, linst{kind: 'l'})
	}
	// labels per target position: shared or one per referencing jump
	pending := map[int][]lab{} // position -> labels to set when the position is reached
	shared := map[int]lab{}
	labelFor := func(pos int) lab {
		if s.ShareLabel {
			if l, ok := shared[pos]; ok {
				return l
			}
		}
		r, a := newLabel()
		l := lab{r, a}
		shared[pos] = l
		pending[pos] = append(pending[pos], l)
		return l
	}
	reach := func(pos int) {
		for _, l := range pending[pos] {
			setLabel(l)
		}
	}
	for i := 0; i < s.Prologue; i++ {
		ld()
	}
	for j, sl := range s.Slots {
		reach(j)
		bit := uint32(1) << uint(j)
		if sl.TwoWay {
			t, f := labelFor(sl.T), labelFor(sl.F)
			b.Calls++
			p.JmpIf(bpf.JumpBitsSet, bit, t.real, f.real)
			b.lprog = append(b.lprog, linst{kind: 'j', bit: bit, tl: t.abs, fl: f.abs, hasF: true, coreIdx: j})
		} else {
			t := labelFor(sl.T)
			// JmpIfTrue allocates its own fall-through label inside the builder; mirror it abstractly
			b.Calls++
			p.JmpIfTrue(bpf.JumpBitsSet, bit, t.real)
			nextAbs++ // the builder's internal NewLabel
			b.lprog = append(b.lprog, linst{kind: 'j', bit: bit, tl: t.abs, coreIdx: j})
		}
		n := s.Pads[j]
		if s.PadJumps {
			for ; n >= 2; n -= 2 {
				r, a := newLabel()
				b.Calls++
				p.JmpIfTrue(bpf.JumpBitsSet, padBit, r)
				nextAbs++
				b.lprog = append(b.lprog, linst{kind: 'j', bit: padBit, tl: a, coreIdx: -1})
				ld()
				setLabel(lab{r, a})
			}
		}
		for ; n > 0; n-- {
			ld()
		}
	}
	tail := func(i int) {
		b.Calls++
		p.Ret(seccomp.Action(retVal(i)))
		b.lprog = append(b.lprog, linst{kind: 'r', val: retVal(i)})
	}
	reach(k)
	tail(0)
	reach(k + 1)
	tail(1)
	reach(k + 2)
	ld()
	tail(2)
	return b
}

// RunAbstract executes the label-level program on input x.
func (b *Built) RunAbstract(x uint32) (uint32, error) {
	pc := 0
	for steps := 0; steps < len(b.lprog)+1; steps++ {
		if pc >= len(b.lprog) {
			return 0, fmt.Errorf("abstract machine ran off the end")
		}
		in := b.lprog[pc]
		switch in.kind {
		case 'l':
			pc++
		case 'r':
			return in.val, nil
		case 'j':
			if x&in.bit != 0 {
				pc = b.labels[in.tl]
			} else if in.hasF {
				pc = b.labels[in.fl]
			} else {
				pc++
			}
		}
	}
	return 0, fmt.Errorf("abstract machine did not terminate")
}

// Assemble calls the real Program.Assemble and encodes the result.
func (b *Built) Assemble() (prog []cbpf.Insn, err error, panicked any) {
	defer func() {
		if r := recover(); r != nil {
			panicked = r
		}
	}()
	if Watch != nil {
		defer Watch(b.spec)()
	}
	insts, err := b.prog.Assemble()
	if err != nil {
		return nil, err, nil
	}
	raw, err := bpf.Assemble(insts)
	if err != nil {
		return nil, fmt.Errorf("bpf.Assemble: %w", err), nil
	}
	prog = make([]cbpf.Insn, len(raw))
	for i, r := range raw {
		prog[i] = cbpf.Insn{Op: r.Op, Jt: r.Jt, Jf: r.Jf, K: r.K}
	}
	return prog, nil, nil
}

// Result of checking one spec.
type Result struct {
	Err       string
	Input     uint32
	Got, Want uint32
	ProgLen   int
	LLen      int
	Inserted  int
	Inputs    int
	Calls     int
	RetCopies int
	LongJa    int
}

// Check builds, assembles and compares on all 2^(k+1) inputs. ok=false means a violation described in Result.
func Check(s *Spec) (res Result, ok bool) {
	b := Build(s)
	res.LLen = len(b.lprog)
	res.Calls = b.Calls + 1
	prog, err, pan := b.Assemble()
	if pan != nil {
		res.Err = fmt.Sprintf("Assemble panicked: %v", pan)
		return res, false
	}
	if err != nil {
		res.Err = "Assemble failed on a well-formed label program: " + err.Error()
		return res, false
	}
	res.ProgLen = len(prog)
	res.Inserted = len(prog) - len(b.lprog)
	for _, f := range prog {
		if f.Op == cbpf.OpJA {
			res.LongJa++
		}
	}
	nret := 0
	for _, f := range prog {
		if f.Op == cbpf.OpRetK {
			nret++
		}
	}
	res.RetCopies = nret - 3
	if len(prog) <= cbpf.MaxInsns {
		if verr := cbpf.Check(prog); verr != nil {
			res.Err = "assembled program is not a valid filter: " + verr.Error()
			return res, false
		}
	}
	if r, ok := behaves(s, b, prog, &res, ""); !ok {
		return r, false
	}
	return res, true
}

// behaves runs the assembled list and the label program on all 2^(k+1) inputs.
func behaves(s *Spec, b *Built, prog []cbpf.Insn, resp *Result, prefix string) (Result, bool) {
	res := *resp
	defer func() { *resp = res }()
	k := len(s.Slots)
	for in := 0; in < 1<<(k+1); in++ {
		x := uint32(in) & (1<<k - 1)
		if in>>k != 0 {
			x |= padBit
		}
		var d cbpf.Data
		for w := range d {
			d[w] = x
		}
		want, aerr := b.RunAbstract(x)
		if aerr != nil {
			res.Err = "harness: " + aerr.Error()
			return res, false
		}
		got, xerr := cbpf.Run(prog, &d, nil, nil)
		res.Inputs++
		if xerr != nil {
			res.Err, res.Input, res.Want = prefix+"execution error: "+xerr.Error(), x, want
			return res, false
		}
		if got != want {
			res.Err, res.Input, res.Got, res.Want = prefix+"assembled program and label program disagree", x, got, want
			return res, false
		}
	}
	return res, true
}

// Enumerate calls fn for every spec with k slots, pads from P, both pad kinds and both label variants.
// It is a depth-first walk of the prefix tree of builder-call sequences. shard/nshard split the
// first slot's choices over workers.
func Enumerate(k int, P []int, prologues []int, shard, nshard int, fn func(s *Spec)) {
	EnumerateKinds(k, P, prologues, []bool{false, true}, shard, nshard, fn)
}

// EnumerateKinds is Enumerate with a choice of filler kinds (false: loads, true: short-jump pairs).
func EnumerateKinds(k int, P []int, prologues []int, padKinds []bool, shard, nshard int, fn func(s *Spec)) {
	s := &Spec{Slots: make([]Slot, k), Pads: make([]int, k)}
	counter := 0
	var recSlot func(j int)
	var recPad func(j int)
	recSlot = func(j int) {
		if j == k {
			recPad(0)
			return
		}
		npos := k + 3
		for t := j + 1; t < npos; t++ {
			if j == 0 {
				counter++
			}
			if j != 0 || (counter-1)%nshard == shard {
				s.Slots[j] = Slot{TwoWay: false, T: t}
				recSlot(j + 1)
			}
			for f := j + 1; f < npos; f++ {
				if f == t {
					continue
				}
				if j == 0 {
					counter++
					if (counter-1)%nshard != shard {
						continue
					}
				}
				s.Slots[j] = Slot{TwoWay: true, T: t, F: f}
				recSlot(j + 1)
			}
		}
	}
	recPad = func(j int) {
		if j > 0 && s.Pads[j-1] == 0 && !s.Slots[j-1].TwoWay && s.Slots[j-1].T == j {
			return // one-way jump to its own fall-through: both targets coincide (outside the domain)
		}
		if j == k {
			for _, pro := range prologues {
				for _, pj := range padKinds {
					for _, sh := range []bool{true, false} {
						s.PadJumps, s.ShareLabel, s.Prologue = pj, sh, pro
						fn(s)
					}
				}
			}
			return
		}
		for _, n := range P {
			s.Pads[j] = n
			recPad(j + 1)
		}
	}
	recSlot(0)
}

func (s *Spec) Clone() *Spec {
	c := *s
	c.Slots = append([]Slot(nil), s.Slots...)
	c.Pads = append([]int(nil), s.Pads...)
	return &c
}
