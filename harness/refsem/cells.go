package refsem

import (
	"fmt"
	"sort"

	seccomp "github.com/elastic/go-seccomp-bpf"

	"verif/harness/cbpf"
)

// WordConsts collects, for one 32-bit word of seccomp_data, the constants it
// can be compared with (equality / order atoms) and the masks it can be tested
// against.
type WordConsts struct {
	Order map[uint32]bool
	Mask  map[uint32]bool
	Used  bool
}

type Consts [16]WordConsts

func (c *Consts) order(w int, k uint32) {
	if c[w].Order == nil {
		c[w].Order = map[uint32]bool{}
	}
	c[w].Order[k] = true
	c[w].Used = true
}
func (c *Consts) mask(w int, k uint32) {
	if c[w].Mask == nil {
		c[w].Mask = map[uint32]bool{}
	}
	c[w].Mask[k] = true
	c[w].Used = true
}

// ArgWords returns the word indices (hi, lo) of argument i for a byte order.
func ArgWords(i int, big bool) (hi, lo int) {
	if big {
		return 4 + 2*i, 5 + 2*i
	}
	return 5 + 2*i, 4 + 2*i
}

// AddPolicy adds the constants the reference semantics compares each word with.
func (c *Consts) AddPolicy(a *Arch, p *seccomp.Policy, big bool) {
	c.order(1, a.ID)
	c[0].Used = true
	if a.IsX86_64 {
		c.order(0, X32Bit)
	}
	for gi := range p.Syscalls {
		g := &p.Syscalls[gi]
		for _, n := range g.Names {
			if num, ok := a.num[n]; ok {
				c.order(0, num)
			}
		}
		for _, e := range g.NamesWithCondtions {
			if num, ok := a.num[e.Name]; ok {
				c.order(0, num)
			}
			for _, cd := range e.Conditions {
				if cd.Argument > 5 {
					continue
				}
				hi, lo := ArgWords(int(cd.Argument), big)
				switch string(cd.Operation) {
				case "BitsSet", "BitsNotSet":
					c.mask(hi, uint32(cd.Value>>32))
					c.mask(lo, uint32(cd.Value))
				default:
					c.order(hi, uint32(cd.Value>>32))
					c.order(lo, uint32(cd.Value))
				}
			}
		}
	}
}

// AddProgram adds, for every conditional jump of prog, its constant to every
// word that a reaching-definitions analysis of prog itself says the
// accumulator can hold there (computed from the emitted program, so a
// miscompilation cannot invalidate it). It returns an error if the program is
// outside the fragment in which this is exact.
func (c *Consts) AddProgram(prog []cbpf.Insn) error {
	if err := cbpf.Fragment(prog); err != nil {
		return err
	}
	n := len(prog)
	reach := make([]uint32, n+1) // bit w: word w may be in A; bit 31: A may be the initial 0
	reach[0] = 1 << 31
	for pc, f := range prog {
		in := reach[pc]
		if in == 0 {
			continue // unreachable
		}
		flow := func(t uint64, v uint32) {
			if t < uint64(n) {
				reach[t] |= v
			}
		}
		switch {
		case f.Op == cbpf.OpLdWAbs:
			if f.K%4 != 0 || f.K >= 64 {
				return fmt.Errorf("pc %d: bad load offset %d", pc, f.K)
			}
			c[f.K/4].Used = true
			flow(uint64(pc)+1, 1<<(f.K/4))
		case f.Op == cbpf.OpJA:
			flow(uint64(pc)+1+uint64(f.K), in)
		case f.Op == cbpf.OpRetK:
		default: // conditional jump, constant operand
			for w := 0; w < 16; w++ {
				if in&(1<<w) != 0 {
					if f.Op&0xf0 == cbpf.JmpJSET {
						c.mask(w, f.K)
					} else {
						c.order(w, f.K)
					}
				}
			}
			flow(uint64(pc)+1+uint64(f.Jt), in)
			flow(uint64(pc)+1+uint64(f.Jf), in)
		}
	}
	return nil
}

// minFixed returns the smallest v in [lo, 2^32) with all bits of ones set and
// all bits of zeros clear.
func minFixed(lo, ones, zeros uint32) (uint32, bool) {
	if ones&zeros != 0 {
		return 0, false
	}
	if lo&ones == ones && lo&zeros == 0 {
		return lo, true
	}
	for p := 0; p < 32; p++ {
		bit := uint32(1) << p
		if lo&bit != 0 || zeros&bit != 0 {
			continue
		}
		above := ^uint32(0) << (p + 1)
		if p == 31 {
			above = 0
		}
		hiPart := lo & above
		if hiPart&zeros != 0 || (ones&above)&^hiPart != 0 {
			continue
		}
		below := bit - 1
		return hiPart | bit | (ones & below), true
	}
	return 0, false
}

// findInRange returns some v in [lo,hi] with v&m==0 for m in zeroMasks and
// v&m!=0 for m in nzMasks.
func findInRange(lo, hi uint32, zeroMasks, nzMasks []uint32) (uint32, bool) {
	var zeros uint32
	for _, m := range zeroMasks {
		zeros |= m
	}
	var rec func(i int, ones uint32) (uint32, bool)
	rec = func(i int, ones uint32) (uint32, bool) {
		if i == len(nzMasks) {
			v, ok := minFixed(lo, ones, zeros)
			if ok && v <= hi {
				return v, true
			}
			return 0, false
		}
		avail := nzMasks[i] &^ zeros
		if avail&ones != 0 { // already satisfied
			return rec(i+1, ones)
		}
		for b := 0; b < 32; b++ {
			if avail&(1<<b) != 0 {
				if v, ok := rec(i+1, ones|1<<b); ok {
					return v, true
				}
			}
		}
		return 0, false
	}
	return rec(0, 0)
}

// Cells returns one representative of every non-empty equivalence class of
// 32-bit values under the atoms {v==k, v>k, v>=k : k in Order} and
// {v&m != 0 : m in Mask}. exact is false if there are too many masks.
func (w *WordConsts) Cells(bothEnds bool) (vals []uint32, exact bool) {
	ks := make([]uint32, 0, len(w.Order))
	for k := range w.Order {
		ks = append(ks, k)
	}
	sort.Slice(ks, func(i, j int) bool { return ks[i] < ks[j] })
	ms := make([]uint32, 0, len(w.Mask))
	for m := range w.Mask {
		if m != 0 {
			ms = append(ms, m)
		}
	}
	sort.Slice(ms, func(i, j int) bool { return ms[i] < ms[j] })
	if len(ms) > 5 {
		return nil, false
	}
	type iv struct{ lo, hi uint32 }
	var ivs []iv
	next := uint64(0)
	for _, k := range ks {
		if uint64(k) > next {
			ivs = append(ivs, iv{uint32(next), k - 1})
		}
		ivs = append(ivs, iv{k, k})
		next = uint64(k) + 1
	}
	if next <= 0xffffffff {
		ivs = append(ivs, iv{uint32(next), 0xffffffff})
	}
	seen := map[uint32]bool{}
	add := func(v uint32) {
		if !seen[v] {
			seen[v] = true
			vals = append(vals, v)
		}
	}
	for _, in := range ivs {
		for sv := 0; sv < 1<<len(ms); sv++ {
			var z, nz []uint32
			for i, m := range ms {
				if sv&(1<<i) != 0 {
					nz = append(nz, m)
				} else {
					z = append(z, m)
				}
			}
			if v, ok := findInRange(in.lo, in.hi, z, nz); ok {
				add(v)
			}
		}
		if bothEnds && len(ms) == 0 {
			add(in.hi)
		}
	}
	return vals, true
}

// CellKey is a canonical key of the constant sets (for caching representatives).
func (w *WordConsts) key() string {
	ks := make([]uint32, 0, len(w.Order)+len(w.Mask)+1)
	for k := range w.Order {
		ks = append(ks, k)
	}
	sort.Slice(ks, func(i, j int) bool { return ks[i] < ks[j] })
	ms := make([]uint32, 0, len(w.Mask))
	for k := range w.Mask {
		ms = append(ms, k)
	}
	sort.Slice(ms, func(i, j int) bool { return ms[i] < ms[j] })
	return fmt.Sprint(ks, ms)
}

// FromWords rebuilds the event from its word image.
func FromWords(d *cbpf.Data, big bool) cbpf.Event {
	var e cbpf.Event
	e.Nr, e.Arch = d[0], d[1]
	get := func(i int) uint64 {
		if big {
			return uint64(d[i])<<32 | uint64(d[i+1])
		}
		return uint64(d[i+1])<<32 | uint64(d[i])
	}
	e.IP = get(2)
	for i := range e.Args {
		e.Args[i] = get(4 + 2*i)
	}
	return e
}

// Product enumerates the full product of per-word cells. Words that are not
// used anywhere (neither loaded by the program nor mentioned by the policy)
// get the single filler value. fn returns false to stop.
type Product struct {
	Words [16][]uint32
	Exact bool
}

func (c *Consts) Product(filler uint32) *Product {
	p := &Product{Exact: true}
	for w := 0; w < 16; w++ {
		if !c[w].Used {
			p.Words[w] = []uint32{filler}
			continue
		}
		vals, exact := c[w].Cells(w == 0)
		if !exact {
			p.Exact = false
		}
		p.Words[w] = vals
	}
	return p
}

func (p *Product) Size() uint64 {
	s := uint64(1)
	for w := 0; w < 16; w++ {
		s *= uint64(len(p.Words[w]))
		if s > 1<<40 {
			return s
		}
	}
	return s
}

func (p *Product) Each(fn func(d *cbpf.Data) bool) {
	var idx [16]int
	var d cbpf.Data
	for w := 0; w < 16; w++ {
		d[w] = p.Words[w][0]
	}
	for {
		if !fn(&d) {
			return
		}
		w := 15
		for ; w >= 0; w-- {
			idx[w]++
			if idx[w] < len(p.Words[w]) {
				d[w] = p.Words[w][idx[w]]
				break
			}
			idx[w] = 0
			d[w] = p.Words[w][0]
		}
		if w < 0 {
			return
		}
	}
}
