// Package refsem holds the reference semantics of a seccomp policy (written
// from the property statements, never from compiler output), the oracle-backed
// architecture descriptions, and the exact event partition of DESIGN §2.4.
package refsem

import (
	"encoding/json"
	"fmt"
	"os"
	"path/filepath"
	"sort"

	seccomp "github.com/elastic/go-seccomp-bpf"
	"github.com/elastic/go-seccomp-bpf/arch"

	"verif/harness/cbpf"
)

// Kernel UAPI values (vendored; checked against oracles.json at start-up).
const (
	RetKillProcess = 0x80000000
	RetKillThread  = 0x00000000
	RetTrap        = 0x00030000
	RetErrno       = 0x00050000
	RetUserNotif   = 0x7fc00000
	RetTrace       = 0x7ff00000
	RetLog         = 0x7ffc0000
	RetAllow       = 0x7fff0000
	EPERM          = 1
	ENOSYS         = 38
	X32Bit         = 0x40000000
)

var NamedActions = map[uint32]string{
	RetKillProcess: "kill_process", RetKillThread: "kill_thread", RetTrap: "trap", RetErrno: "errno",
	RetTrace: "trace", RetLog: "log", RetAllow: "allow",
}

var OpNames = []string{"Equal", "NotEqual", "GreaterThan", "LessThan", "GreaterOrEqual", "LessOrEqual", "BitsSet", "BitsNotSet"}

// Oracles is the content of /verif/oracles/oracles.json.
type Oracles struct {
	Tables    map[string]map[string]map[string]int `json:"tables"`
	AuditArch map[string]uint32                    `json:"audit_arch"`
	Consts    map[string]uint64                    `json:"consts"`
}

var orc *Oracles

func Root() string {
	if r := os.Getenv("VERIF_ROOT"); r != "" {
		return r
	}
	return "/verif"
}

func LoadOracles() *Oracles {
	if orc != nil {
		return orc
	}
	b, err := os.ReadFile(filepath.Join(Root(), "oracles", "oracles.json"))
	if err != nil {
		// a child running under another uid reads the copy its parent made for it
		if alt := os.Getenv("VERIF_ORACLES"); alt != "" {
			b, err = os.ReadFile(alt)
		}
	}
	if err != nil {
		panic(err)
	}
	o := &Oracles{}
	if err := json.Unmarshal(b, o); err != nil {
		panic(err)
	}
	chk := map[string]uint64{"SECCOMP_RET_KILL_PROCESS": RetKillProcess, "SECCOMP_RET_KILL_THREAD": RetKillThread,
		"SECCOMP_RET_TRAP": RetTrap, "SECCOMP_RET_ERRNO": RetErrno, "SECCOMP_RET_USER_NOTIF": RetUserNotif,
		"SECCOMP_RET_TRACE": RetTrace, "SECCOMP_RET_LOG": RetLog, "SECCOMP_RET_ALLOW": RetAllow, "EPERM": EPERM, "ENOSYS": ENOSYS}
	for k, v := range chk {
		if o.Consts[k] != v {
			panic(fmt.Sprintf("oracle constant %s = %#x, harness has %#x", k, o.Consts[k], v))
		}
	}
	orc = o
	return o
}

// Arch describes one architecture with a syscall table.
type Arch struct {
	Name      string
	ID        uint32 // AUDIT_ARCH value from the oracle
	Info      *arch.Info
	IsX86_64  bool
	num       map[string]uint32 // oracle first, library table as fall-back
	Unoracled int               // names for which no oracle lists a number
}

var srcPriority = []string{"kernel_uapi", "kernel_uapi_generic", "x_sys_v0_48", "go_syscall"}

func buildArch(name, auditKey string, info *arch.Info) *Arch {
	o := LoadOracles()
	a := &Arch{Name: name, ID: o.AuditArch[auditKey], Info: info, IsX86_64: name == "x86_64" || name == "x32", num: map[string]uint32{}}
	if a.ID == 0 {
		panic("no audit arch oracle for " + name)
	}
	mask := uint32(info.SeccompMask)
	for n, v := range info.SyscallNames {
		found := false
		for _, src := range srcPriority {
			if t, ok := o.Tables[name][src]; ok {
				if ov, ok := t[n]; ok {
					a.num[n] = uint32(ov) | mask
					found = true
					break
				}
			}
		}
		if !found {
			a.num[n] = uint32(v) | mask
			a.Unoracled++
		}
	}
	return a
}

var archCache []*Arch

// Archs returns the four architectures that have syscall tables and are
// reachable through the public API.
func Archs() []*Arch {
	if archCache == nil {
		archCache = []*Arch{
			buildArch("x86_64", "X86_64", arch.X86_64),
			buildArch("i386", "I386", arch.I386),
			buildArch("arm", "ARM", arch.ARM),
			buildArch("aarch64", "AARCH64", arch.AARCH64),
		}
	}
	return archCache
}

var archX32 *Arch

// ArchX32 describes the x32 ABI as a policy architecture. It cannot be selected through the public API (the package
// picks the architecture from GOARCH) but the compiler accepts it through the architecture hook; it shares
// AUDIT_ARCH_X86_64, its syscall numbers carry the x32 bit, and the x32 guard of x86_64 programs applies to it.
func ArchX32() *Arch {
	if archX32 == nil {
		archX32 = buildArch("x32", "X86_64", arch.X32)
	}
	return archX32
}

func ArchByName(n string) *Arch {
	if n == "x32" {
		return ArchX32()
	}
	for _, a := range Archs() {
		if a.Name == n {
			return a
		}
	}
	return nil
}

func (a *Arch) Number(name string) (uint32, bool) { v, ok := a.num[name]; return v, ok }

// SortedNames returns the table's names ordered by (oracle) number.
// SortedByNumber lists the names in ascending order of their syscall numbers.
func (a *Arch) SortedByNumber() []string {
	names := a.SortedNames()
	sort.SliceStable(names, func(i, j int) bool { return a.num[names[i]] < a.num[names[j]] })
	return names
}

func (a *Arch) SortedNames() []string {
	names := make([]string, 0, len(a.num))
	for n := range a.num {
		names = append(names, n)
	}
	sort.Slice(names, func(i, j int) bool {
		if a.num[names[i]] != a.num[names[j]] {
			return a.num[names[i]] < a.num[names[j]]
		}
		return names[i] < names[j]
	})
	return names
}

// Enc is the return word for an action.
func Enc(a seccomp.Action) uint32 {
	if uint32(a) == RetErrno {
		return RetErrno | EPERM
	}
	return uint32(a)
}

// Rel is the unsigned 64-bit relation of a condition.
func Rel(op seccomp.Operation, actual, v uint64) (bool, bool) {
	switch string(op) {
	case "Equal":
		return actual == v, true
	case "NotEqual":
		return actual != v, true
	case "GreaterThan":
		return actual > v, true
	case "LessThan":
		return actual < v, true
	case "GreaterOrEqual":
		return actual >= v, true
	case "LessOrEqual":
		return actual <= v, true
	case "BitsSet":
		return actual&v != 0, true
	case "BitsNotSet":
		return actual&v == 0, true
	}
	return false, false
}

// Decide is the reference decision function (C01, C03, C04).
func Decide(a *Arch, p *seccomp.Policy, ev cbpf.Event) uint32 {
	if ev.Arch != a.ID {
		return Enc(p.DefaultAction)
	}
	if a.IsX86_64 && ev.Nr >= X32Bit {
		return RetErrno | ENOSYS
	}
	for gi := range p.Syscalls {
		g := &p.Syscalls[gi]
		for _, n := range g.Names {
			if num, ok := a.num[n]; ok && num == ev.Nr {
				return Enc(g.Action)
			}
		}
		for ei := range g.NamesWithCondtions {
			e := &g.NamesWithCondtions[ei]
			num, ok := a.num[e.Name]
			if !ok || num != ev.Nr {
				continue
			}
			all := true
			for _, c := range e.Conditions {
				if c.Argument > 5 {
					all = false
					break
				}
				r, _ := Rel(c.Operation, ev.Args[c.Argument], c.Value)
				if !r {
					all = false
					break
				}
			}
			if all {
				return Enc(g.Action)
			}
		}
	}
	return Enc(p.DefaultAction)
}

// Verdict of the reference about acceptance (C07).
type Verdict int

const (
	MustAccept Verdict = iota // free of listed defects, every conditional entry has >=1 condition
	MustReject                // has one of the listed defects
	Either                    // outside both sets (e.g. a conditional entry with an empty condition list)
)

// Valid classifies a policy per the statement of C07. The 4096-instruction
// limit is applied by the caller (it depends on the compiled size).
func Valid(a *Arch, p *seccomp.Policy) (Verdict, string) {
	if _, ok := NamedActions[uint32(p.DefaultAction)]; !ok {
		return MustReject, "unknown default action"
	}
	if len(p.Syscalls) == 0 {
		return MustReject, "no groups"
	}
	either := ""
	for gi := range p.Syscalls {
		g := &p.Syscalls[gi]
		uncond := map[uint32]bool{}
		for _, n := range g.Names {
			num, ok := a.num[n]
			if !ok {
				return MustReject, "unknown syscall name " + fmt.Sprintf("%.40q", n)
			}
			if uncond[num] {
				return MustReject, "duplicate name " + n
			}
			uncond[num] = true
		}
		for _, e := range g.NamesWithCondtions {
			num, ok := a.num[e.Name]
			if !ok {
				return MustReject, "unknown syscall name " + fmt.Sprintf("%.40q", e.Name)
			}
			if uncond[num] {
				return MustReject, "conditional and unconditional " + e.Name
			}
			if len(e.Conditions) == 0 {
				either = "conditional entry without conditions"
			}
			for _, c := range e.Conditions {
				if c.Argument > 5 {
					return MustReject, "argument index > 5"
				}
				if _, ok := Rel(c.Operation, 0, 0); !ok {
					return MustReject, "unimplemented operation " + fmt.Sprintf("%.40q", string(c.Operation))
				}
			}
		}
	}
	if either != "" {
		return Either, either
	}
	return MustAccept, ""
}
