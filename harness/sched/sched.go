// Package sched is a cooperative scheduler for logical threads plus a
// stateless, preemption-bounded depth-first explorer (iterative context
// bounding). Exactly one logical thread runs at a time; scheduling points are
// the calls of Point, which instrumented code makes before every statement.
package sched

import (
	"fmt"
	"runtime"
)

func runtimeGosched() { runtime.Gosched() }

type thread struct {
	id   int
	wake chan struct{}
	done bool
}

const maxThreads = 6

// point records one scheduling decision point of an execution.
type point struct {
	running        int8             // thread that reached the point (-1: start)
	runningEnabled bool             // false if the point is the end of the running thread
	nEnabled       int8             // number of candidates
	enabled        [maxThreads]int8 // candidates in canonical order: running thread first if still enabled, then ascending ids
	choice         int8             // index taken
	site           string
}

// Exec is one execution under a given choice prefix.
type Exec struct {
	prefix       []int
	points       []point
	threads      []*thread
	cur          *thread
	atomic       int
	allDone      chan struct{}
	Diverged     string // non-empty if the prefix could not be replayed (nondeterminism in the code under test)
	Deadlock     bool
	blockedSpins int
}

var active *Exec

// Point is the hook called by instrumented code.
func Point(site string) {
	e := active
	if e == nil || e.atomic > 0 {
		return
	}
	e.decide(site, true)
}

// BlockUntil is called by instrumented code in place of a blocking synchronisation operation (Mutex.Lock, Once.Do
// while another thread is inside): it hands control to other threads until try succeeds. If no other thread can run the
// execution is a deadlock.
func BlockUntil(site string, try func() bool) {
	e := active
	if e == nil {
		for !try() {
			runtimeGosched()
		}
		return
	}
	for !try() {
		if !e.yieldBlocked(site) {
			return
		}
	}
}

// yieldBlocked switches to another enabled thread although the running one is not finished; false on deadlock.
func (e *Exec) yieldBlocked(site string) bool {
	t := e.cur
	others := 0
	for _, o := range e.threads {
		if !o.done && o != t {
			others++
		}
	}
	if others == 0 || e.blockedSpins > 10000 {
		if e.Diverged == "" {
			e.Diverged = "DEADLOCK: thread blocked at " + site + " and no other thread can make progress"
			e.Deadlock = true
		}
		close(e.allDone)
		select {} // this logical thread can never continue; the worker process reports the deadlock and goes on
	}
	e.blockedSpins++
	// a forced switch: the blocked thread is not a candidate
	i := len(e.points)
	if i >= cap(e.points) {
		e.Diverged = "point limit exceeded"
		close(e.allDone)
		select {}
	}
	e.points = e.points[:i+1]
	p := &e.points[i]
	p.running, p.runningEnabled, p.site, p.choice = int8(t.id), false, site, 0
	n := int8(0)
	for _, o := range e.threads {
		if !o.done && o != t {
			p.enabled[n] = int8(o.id)
			n++
		}
	}
	p.nEnabled = n
	if i < len(e.prefix) && e.prefix[i] < int(n) {
		p.choice = int8(e.prefix[i])
	}
	next := e.threads[p.enabled[p.choice]]
	e.cur = next
	next.wake <- struct{}{}
	<-t.wake
	return true
}

// AtomicEnter/AtomicExit bracket code whose number of steps is not deterministic (map iteration); it runs as one step.
func AtomicEnter() {
	if e := active; e != nil {
		e.atomic++
	}
}
func AtomicExit() {
	if e := active; e != nil {
		e.atomic--
	}
}

func (e *Exec) fillEnabled(p *point, running *thread, runningEnabled bool) {
	n := int8(0)
	if runningEnabled {
		p.enabled[n] = int8(running.id)
		n++
	}
	for _, t := range e.threads {
		if !t.done && !(runningEnabled && t == running) {
			p.enabled[n] = int8(t.id)
			n++
		}
	}
	p.nEnabled = n
}

func (e *Exec) decide(site string, runningEnabled bool) {
	t := e.cur
	i := len(e.points)
	if e.Diverged != "" {
		if !runningEnabled {
			// a finished thread must still hand over, otherwise the execution cannot end
			var p point
			e.fillEnabled(&p, t, false)
			if p.nEnabled == 0 {
				close(e.allDone)
				return
			}
			next := e.threads[p.enabled[0]]
			e.cur = next
			next.wake <- struct{}{}
		}
		return
	}
	if i >= cap(e.points) {
		e.Diverged = "point limit exceeded"
		e.decide(site, runningEnabled)
		return
	}
	e.points = e.points[:i+1]
	p := &e.points[i]
	p.running, p.runningEnabled, p.site, p.choice = int8(t.id), runningEnabled, site, 0
	e.fillEnabled(p, t, runningEnabled)
	if p.nEnabled == 0 {
		e.points = e.points[:i]
		close(e.allDone)
		return
	}
	if i < len(e.prefix) {
		c := e.prefix[i]
		if c >= int(p.nEnabled) {
			e.Diverged = fmt.Sprintf("choice %d at point %d (%s) but only %d threads enabled", c, i, site, p.nEnabled)
			c = 0
		}
		p.choice = int8(c)
	}
	next := e.threads[p.enabled[p.choice]]
	if next == t && runningEnabled {
		return // keep running: no context switch
	}
	e.cur = next
	next.wake <- struct{}{}
	if runningEnabled {
		<-t.wake
	}
}

// Run executes the bodies as logical threads under the choice prefix (default choice 0 afterwards).
var pointPool [][]point

func Run(prefix []int, bodies []func()) *Exec {
	if len(bodies) > maxThreads {
		panic("too many logical threads")
	}
	e := &Exec{prefix: prefix, allDone: make(chan struct{})}
	if n := len(pointPool); n > 0 {
		e.points = pointPool[n-1][:0]
		pointPool = pointPool[:n-1]
	} else {
		e.points = make([]point, 0, 1<<16)
	}
	for i := range bodies {
		e.threads = append(e.threads, &thread{id: i, wake: make(chan struct{})})
	}
	for i, b := range bodies {
		t, b := e.threads[i], b
		go func() {
			<-t.wake
			b()
			t.done = true
			e.decide("<end of thread>", false)
		}()
	}
	active = e
	first := 0
	if len(prefix) > 0 {
		first = prefix[0]
		if first >= len(bodies) {
			first = 0
			e.Diverged = "initial choice out of range"
		}
	}
	e.points = e.points[:1]
	p := &e.points[0]
	*p = point{running: -1, nEnabled: int8(len(bodies)), choice: int8(first), site: "<start>"}
	for i := range bodies {
		p.enabled[i] = int8(i)
	}
	e.cur = e.threads[first]
	e.cur.wake <- struct{}{}
	<-e.allDone
	active = nil
	return e
}

// Release returns the execution's point buffer for reuse.
func (e *Exec) Release() {
	pointPool = append(pointPool, e.points)
	e.points = nil
}

// NumPoints of the execution.
func (e *Exec) NumPoints() int { return len(e.points) }

// Choices returns the full choice sequence of the execution.
func (e *Exec) Choices() []int {
	c := make([]int, len(e.points))
	for i, p := range e.points {
		c[i] = int(p.choice)
	}
	return c
}

// Schedule renders the context switches of the execution (for replay files).
func (e *Exec) Schedule() []string {
	var out []string
	for i, p := range e.points {
		if p.choice != 0 || i == 0 {
			out = append(out, fmt.Sprintf("point %d (%s): thread %d -> thread %d", i, p.site, p.running, p.enabled[p.choice]))
		}
	}
	return out
}

// Sites returns the sequence of sites (used to detect nondeterministic replays).
func (e *Exec) Sites() []string {
	s := make([]string, len(e.points))
	for i, p := range e.points {
		s[i] = p.site
	}
	return s
}

// Explorer performs the iterative-context-bounding DFS.
type Explorer struct {
	Bound     int
	Setup     func() (bodies []func(), check func() string) // fresh state per execution; check returns "" or a violation description
	Shard     int
	NShards   int
	Execs     int64
	Diverged  int64
	Deadlocks int64
	MaxPoints int
	Violation func(choices []int, schedule []string, what string)
	Outcomes  map[string]int64
	MaxExecs  int64
	Capped    bool
	branch    int
}

func (x *Explorer) runOne(prefix []int, shared bool) *Exec {
	bodies, check := x.Setup()
	e := Run(prefix, bodies)
	if !shared || x.Shard == 0 {
		x.Execs++ // executions that every shard repeats are counted once
	}
	if e.NumPoints() > x.MaxPoints {
		x.MaxPoints = e.NumPoints()
	}
	if e.Deadlock {
		x.Deadlocks++
		x.Capped = true
		x.MaxExecs = x.Execs // stop: the abandoned thread still holds whatever it had locked
		if x.Violation != nil {
			x.Violation(e.Choices(), e.Schedule(), e.Diverged)
		}
		return e
	}
	if e.Diverged != "" {
		x.Diverged++
		return e
	}
	what := check()
	if x.Outcomes != nil {
		x.Outcomes[what]++
	}
	if what != "" && x.Violation != nil {
		x.Violation(e.Choices(), e.Schedule(), what)
	}
	return e
}

// Explore runs the default execution and all executions with at most Bound preemptions.
func (x *Explorer) Explore() {
	x.explore(nil, 0, true)
}

func (x *Explorer) explore(prefix []int, used int, top bool) {
	if x.MaxExecs > 0 && x.Execs >= x.MaxExecs {
		x.Capped = true
		return
	}
	e := x.runOne(prefix, top)
	if e.Diverged != "" {
		e.Release()
		return
	}
	// copy what the recursion needs: the buffer is reused by deeper executions
	type alt struct {
		i              int
		n              int8
		runningEnabled bool
	}
	var alts []alt
	for i := len(prefix); i < len(e.points); i++ {
		p := &e.points[i]
		if p.nEnabled > 1 {
			alts = append(alts, alt{i, p.nEnabled, p.runningEnabled})
		}
	}
	choices := e.Choices()
	e.Release()
	for _, a := range alts {
		for c := 1; c < int(a.n); c++ {
			cost := used
			if a.runningEnabled {
				cost++ // switching away from a runnable thread is a preemption
			}
			if cost > x.Bound {
				continue
			}
			stillTop := false
			if top {
				if cost == 0 {
					stillTop = true // a free switch (start choice, end of a thread): every shard follows it
				} else {
					// the first preemption: shard these subtrees over the worker processes
					x.branch++
					if x.NShards > 1 && x.branch%x.NShards != x.Shard {
						continue
					}
				}
			}
			np := make([]int, a.i+1)
			copy(np, choices[:a.i])
			np[a.i] = c
			x.explore(np, cost, stillTop)
		}
	}
}
