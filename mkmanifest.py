#!/usr/bin/env python3
"""Generates MANIFEST.json from the table below (kept as a script so the manifest stays valid while checks are added)."""
import json, subprocess

def hooks_commits():
    out = subprocess.run(["git", "-C", "/repo", "log", "--format=%H %s"], capture_output=True, text=True).stdout
    return [l.split()[0] for l in out.splitlines() if " verif:" in l]

CHECKS = {
 "C01": dict(cat="exploration", tech="bounded-exhaustive policy enumeration + exact event partition + independent cBPF interpreter vs reference decision function",
   text="Every policy of scope S1 (1-3 groups x all subsets of 3 names incl. empty x 4 actions x 3 defaults, on the 4 architectures with tables), the raw-action scope and whole-table sweeps (first-k names for every k, two/three-group splits at every cut point) is compiled by the real Policy.Assemble and executed by an independent interpreter on one representative of every class of the exact event partition (covers all 2^32 nr values and all arch/argument words up to indistinguishability); thorough adds literal 2^32 nr sweeps. Exhaustive within the stated scope; says nothing about >3 groups combined with arbitrary name sets beyond the sweeps.",
   note="Trusted: refsem.Decide (written from the statement), vendored kernel/Go syscall tables, the partition argument of DESIGN 2.4, bpf.Assemble's raw encoding as the thing LoadFilter installs.", ref="DESIGN.md C01, 2.3-2.5"),
 "C02": dict(cat="exploration", tech="exhaustive enumeration of op x arg x operand alphabet x partition cells x byte order, interpreter vs uint64 relation",
   text="All 8 operations x 6 argument slots x a 45-value operand alphabet placed on every 32-bit boundary x every cell of the actual argument's two words (and of any other word the program reads), under both byte orders via the byte-order hook; plus all literal operand/actual pairs and all operation pairs on one argument. A lowering or word-selection error changes a decision in some cell.",
   note="Trusted: Go uint64 arithmetic; VerifSetByteOrder only swaps the package variable. Operands outside the alphabet are covered only up to the partition argument (constants enter the program verbatim).", ref="DESIGN.md C02"),
 "C03": dict(cat="exploration", tech="bounded-exhaustive enumeration of conditional policies (colliding operands) + exact event partition vs reference",
   text="All policies of scope S3: entry sequences (<=3 entries; unconditional or 1-2 conditions; 8 ops; operands equal to other entries' syscall numbers; repeated names/arguments; one or two groups split at every point) with <=2 (quick) / <=3-4 (thorough) conditions, plus multi-list entries; each run on the full product of partition cells of nr, arch and all argument words, so every fall-through path (no list matched -> later entry / later group / default) is executed.",
   note="Trusted: refsem.Decide; partition argument. Bound: total conditions per policy and 3 syscalls.", ref="DESIGN.md C03"),
 "C06": dict(cat="model_checking", tech="explicit enumeration of builder-call sequences (label programs) through the real Program builder, each assembled and run on all inputs against an abstract label machine",
   text="All label programs of the slot/pad/tail grammar (k<=3 quick, k<=4 thorough far-capable one-/two-way jumps; targets later jumps, returns, a load; distances from {0,1,2,253..257,300,511,512}; filler of loads or short jumps; shared/separate labels) are built with the real exported builder, assembled by the real Program.Assemble and executed on all 2^(k+1) inputs against the abstract label machine; plus policies with conditional bodies of every length up to ~600 instructions against the reference decision function.",
   note="Trusted: labelm.RunAbstract as meaning of a label program; programs outside the grammar (>=5 interacting far jumps, backward jumps, coinciding targets) are not covered.", ref="DESIGN.md C06"),
}

ALL = ["C%02d" % i for i in range(1, 20)]
PENDING_REASON = "check not built yet in this revision of /verif (design in DESIGN.md section for this property); will be claimed once its check runs green"

m = {
 "version": 1,
 "setup_cmd": "./setup.sh",
 "hooks": {
  "guard": "verif (Go build tag)",
  "enable": "go build -tags verif (the ./check script always builds the harness with the tag against /repo's working tree)",
  "baseline_off_cmd": "cd /repo && GOFLAGS=-mod=mod GOPROXY=off GOSUMDB=off go test -json -vet=off -count=1 -timeout 25m ./...",
  "source_commits": hooks_commits(),
  "add_only": True,
 },
 "engines": [
  {"name": "vcheck", "path": "harness/cmd/vcheck", "serves_properties": sorted(CHECKS), "kind_free_text": "hand-written Go explorers: bounded-exhaustive policy/program enumerators with an independent cBPF interpreter and reference semantics; label-program explorer; (later) explicit-state BFS with kernel replay, cooperative scheduler, fault enumerators"},
 ],
 "checks": [],
 "not_applicable": [],
 "notes": "All checks: ./check <ID> quick|thorough; replay: ./check <ID> --replay <file>. Known findings: known_findings.json (only 'fixed' entries so far). DESIGN.md explains scopes and bounds.",
}
for pid in ALL:
    if pid in CHECKS:
        c = CHECKS[pid]
        m["checks"].append({
            "property_id": pid,
            "quick_cmd": f"./check {pid} quick",
            "thorough_cmd": f"./check {pid} thorough",
            "evidence_file": f"/verif/evidence/{pid}.json",
            "replay_cmd_template": f"./check {pid} --replay {{path}}",
            "engine": "vcheck",
            "level_claimed": {"category": c["cat"], "text": c["text"], "design_ref": c["ref"]},
            "level_note": c["note"],
            "technique": c["tech"],
        })
    else:
        m["not_applicable"].append({"property_id": pid, "reason": PENDING_REASON})
json.dump(m, open("/verif/MANIFEST.json", "w"), indent=1)
print("claimed", len(m["checks"]), "pending", len(m["not_applicable"]))
