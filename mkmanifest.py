#!/usr/bin/env python3
"""Generates MANIFEST.json from the table below (kept as a script so the manifest stays valid while checks are added)."""
import json, subprocess

def hooks_commits():
    out = subprocess.run(["git", "-C", "/repo", "log", "--format=%H %s"], capture_output=True, text=True).stdout
    return [l.split()[0] for l in out.splitlines() if " verif:" in l]

CHECKS = {
 "C01": dict(cat="exploration", tech="bounded-exhaustive policy enumeration + exact event partition + independent cBPF interpreter vs reference decision function",
   text="Every policy of scope S1 (1-3 groups x all subsets of 3 names incl. empty x 4 actions x 3 defaults, on the 4 architectures with tables), the raw-action scope and whole-table sweeps (first-k names for every k, two/three-group splits at every cut point) is compiled by the real Policy.Assemble and executed by an independent interpreter on one representative of every class of the exact event partition (covers all 2^32 nr values and all arch/argument words up to indistinguishability); thorough adds literal 2^32 nr sweeps. Exhaustive within the stated scope; says nothing about >3 groups combined with arbitrary name sets beyond the sweeps.",
   note="Trusted: refsem.Decide (written from the statement), vendored kernel/Go syscall tables, the partition argument of DESIGN 2.4, bpf.Assemble's raw encoding as the thing LoadFilter installs.", ref="DESIGN.md C01, 2.3-2.5"),
 "C02": dict(cat="exploration", tech="exhaustive enumeration of op x arg x operand alphabet x partition cells x byte order, interpreter vs uint64 relation",
   text="All 8 operations x 6 argument slots x a 45-value operand alphabet placed on every 32-bit boundary, on all four architectures, x every cell of the actual argument's two words (and of any other word the program reads), under both byte orders via the byte-order hook; plus all literal operand/actual pairs and all operation pairs on one argument. A lowering or word-selection error changes a decision in some cell.",
   note="Trusted: Go uint64 arithmetic; VerifSetByteOrder only swaps the package variable. Operands outside the alphabet are covered only up to the partition argument (constants enter the program verbatim).", ref="DESIGN.md C02"),
 "C03": dict(cat="exploration", tech="bounded-exhaustive enumeration of conditional policies (colliding operands) + exact event partition vs reference",
   text="All policies of scope S3: entry sequences (<=3 entries; unconditional or 1-2 conditions; 8 ops; operands equal to other entries' syscall numbers; repeated names/arguments; one or two groups split at every point) with <=2 (quick) / <=3-4 (thorough) conditions, plus multi-list entries; each run on the full product of partition cells of nr, arch and all argument words, so every fall-through path (no list matched -> later entry / later group / default) is executed.",
   note="Trusted: refsem.Decide; partition argument. Bound: total conditions per policy and 3 syscalls.", ref="DESIGN.md C03"),
 "C06": dict(cat="model_checking", tech="explicit enumeration of builder-call sequences (label programs) through the real Program builder, each assembled and run on all inputs against an abstract label machine",
   text="All label programs of the slot/pad/tail grammar (k<=3 quick, k<=4 thorough far-capable one-/two-way jumps; targets later jumps, returns, a load; distances from {0,1,2,253..257,300,511,512}; filler of loads or short jumps; shared/separate labels) are built with the real exported builder, assembled by the real Program.Assemble and executed on all 2^(k+1) inputs against the abstract label machine; plus policies with conditional bodies of every length up to ~600 instructions against the reference decision function.",
   note="Trusted: labelm.RunAbstract as meaning of a label program; programs outside the grammar (>=5 interacting far jumps, backward jumps, coinciding targets) are not covered.", ref="DESIGN.md C06"),
 "C04": dict(cat="exploration", tech="bounded-exhaustive policy enumeration x every AUDIT_ARCH word x x32 numbers on the exact partition, interpreter vs reference",
   text="Scopes S1, S3 (<=2 entries/conditions) and the long-program scope are run on the exact partition extended by every AUDIT_ARCH constant of linux/audit.h, 0, own+-1, own with bit 30/31 flipped, 0xFFFFFFFF, and by nr 0x3FFFFFFF/0x40000000/0x40000000|n/0x7FFFFFFF/0x80000000/0xFFFFFFFF in full product with argument cells that satisfy the rules; a sweep makes the architecture-jump distance take every value 240..270 on all architectures so both encodings and the switch at 255 are executed. Only foreign/x32 events are judged here.",
   note="Trusted: first two lines of refsem.Decide; partition argument; vendored AUDIT_ARCH values.", ref="DESIGN.md C04"),
 "C05": dict(cat="exploration", tech="exhaustive scope enumeration + port of the kernel verifier, port replayed against real seccomp(2)",
   text="Every program returned with nil error by scopes S1, S3, S6, the C07 bases and the C07 defect-injected policies (whatever is accepted must verify) and a degenerate scope (all-empty groups, single names, whole tables, 1..1100 condition lists crossing 4096, lists of 1..60 conditions), on four architectures plus the x32 ABI through the hook is raw-encoded and checked by a line-by-line port of bpf_check_classic + check_load_and_stores + seccomp_check_filter and for a closed RET set; the port is validated against the real kernel on every distinct program shape met (thousands per run) and on ~58 rule programs, one per acceptance/rejection rule.",
   note="Trusted: this kernel's verifier as ground truth for the port; RET K only (fragment check) so the syntactic return set is exact.", ref="DESIGN.md C05, 2.2"),
 "C07": dict(cat="exploration", tech="defect injection at every position of valid base policies + acceptance obligations over exhaustive small scopes",
   text="8 defect kinds in many spellings injected at every name slot / condition slot / ordered pair of 6 base policies on 4 architectures, plus pairs of defects and table-less architectures: each must yield (error, nil program, no panic). Every defect-free policy of the bases, varied valid forms and scopes S1/S3-small must be accepted; policies in neither set (empty condition list) must be compiled faithfully if accepted.",
   note="Trusted: refsem.Valid as the statement's defect list. Arbitrary strings are represented by 10 spellings per slot, not all strings.", ref="DESIGN.md C07"),
 "C08": dict(cat="model_checking", tech="reference model replayed on the real kernel: every policy of a probe scope loaded by the real LoadFilter in a fresh child, every partition cell issued as a real syscall",
   text="Policies over six harmless probe syscalls (names-only 1-2 groups x 4 actions; single conditions 8 ops x 6 registers x boundary operands; AND/OR lists; two groups; kill_process behind conditions; with/without a >255-instruction allow group) are loaded by the real LoadFilter (flags 0/tsync, NNP on/off, as root and as uid 65534, half of them with a policy value that was assembled in an earlier shape before) in fresh children; every cell of the argument partition is issued with RawSyscall6 from the loader and a second thread and compared with the reference (EPERM / success / SIGSYS); the sock_fprog captured at the seam must equal the compiled program in length and content.",
   note="Trusted: probe syscalls ignore arguments; host architecture only; seam hook sits before the syscall instruction (strace cross-check of flags in C10).", ref="DESIGN.md C08"),
 "C09": dict(cat="model_checking", tech="explicit-state BFS over a Go model of the kernel attach rules, every transition replayed through the real LoadFilter on the real kernel with state comparison",
   text="BFS (depth 3 quick / 4 thorough, 85 operations: Load on 3 threads x {valid A, valid B, invalid policy, oversize, bad flag} x tsync x nnp, valid kinds also with the log flag; Supported) from privileged and uid-65534 initial states, deduplicated on canonical model state; every transition is replayed (shortest history + op) in a fresh child; after every step per-thread NoNewPrivs/Seccomp/Seccomp_filters and probe answers are compared with the model (conformance) and LoadFilter's result with what the kernel shows (nil <=> in force everywhere requested; failed/invalid loads leave nothing; Supported changes nothing). Thorough adds all histories of length 2 without deduplication.",
   note="Trusted: kmodel validated on every transition on this kernel (model_kernel_mismatches=0); runtime threads change only through thread-sync.", ref="DESIGN.md C09"),
 "C10": dict(cat="model_checking", tech="enumeration of user-visible thread-phase vectors x flags x loader placement, each executed on the real kernel with per-thread observation after an atomic load-returned flag",
   text="All phase vectors (spin, nanosleep, blocked read, blocked futex, spawning threads) of N<=2 (quick) / N<=3 (thorough) other threads plus N=8/64, x flags {0,tsync,log,tsync|log} x loader on main/non-main thread, plus scenarios with a preloaded filter, a divergent thread (refusal) and an outer filter answering ENOSYS to seccomp(2); after the load every thread (and three born later) probes and reads its status, /proc/self/task is scanned; all 32 single-bit flag words are compared at the seam and defined ones in strace's decoding of seccomp(2).",
   note="Limit: kernel-internal interleavings of seccomp(2) cannot be scheduled from user space (kernel's guarantee); one execution per vector.", ref="DESIGN.md C10"),
 "C11": dict(cat="model_checking", tech="schedule enumeration at the single prctl/seccomp seam: forced goroutine migration via the seam hook, in fresh privileged/unprivileged children",
   text="{root, uid 65534} x NoNewPrivs x 4 flag words x loader goroutine placement x {stay, forced migration to another OS thread with/without idle-thread pool}; the migration manoeuvre is first shown to work on an unpinned control goroutine in the same child; observed: LoadFilter result, installing tid and its no_new_privs bit at the seam, per-thread bits/filters before and after; plus all two-load (thorough: three-load) histories over two threads in one process, privileged and unprivileged.",
   note="Limit: placements, not instruction-level preemption, are enumerated; if the loader is wired to its thread migration is impossible and the property holds by construction.", ref="DESIGN.md C11"),
 "C12": dict(cat="exploration", tech="exhaustive finite enumeration of all table entries, aliases and spellings against vendored independent oracles",
   text="Every (number,name)/(name,number) entry of the five tables is checked for mutual inversion and unambiguity and compared with every independent source listing the name (kernel UAPI unistd headers, Go syscall tables, x/sys v0.48 tables); every architecture variable's ID against AUDIT_ARCH_*; every alias in all single-letter case variants; 31 table-less/unknown names must be unsupported; table contents compared across 8 (thorough 32) fresh processes.",
   note="Trusted: oracles.json (generated by oracles/gen.py from this image's headers and Go sources; provenance recorded). A source that does not list a name says nothing about it (50 entries have no oracle).", ref="DESIGN.md C12"),
 "C19": dict(cat="exploration", tech="exhaustive configuration enumeration: all GOOS/GOARCH targets built by the real compiler with overlay-added compile-time constant assertions; AST facts of the stubs",
   text="All 49 targets of `go tool dist list` are built (thorough: vetted) with an overlay file per package asserting every declared constant (numeric and string) equals the vendored Linux UAPI value; loader/stub file selection from go list; stub file parsed (no imports, no calls, Supported returns literal false); GetInfo(goarch) has a table exactly for 386/amd64/arm/arm64; per GOARCH a probe built with runtime.GOARCH substituted through an overlay runs the implicit-architecture path (GetInfo(\"\"), Policy.Assemble) on the host.",
   note="Limit: foreign targets are compiled and constant-evaluated, not executed. ENOSYS expected 89 on linux/mips*, 38 elsewhere.", ref="DESIGN.md C19"),
 "C14": dict(cat="exploration", tech="exhaustive enumeration of case variants and single-edit mutants of all names; round trip of every policy of bounded scopes through three renderings and the real config loader, compared by compiled program",
   text="All 2^letters ASCII case variants of the 15 names parse to the exact constant; all single-edit mutants over a 34-symbol alphabet (incl. NUL and Unicode look-alikes), concatenations and look-alikes are rejected (three-valued under Unicode folding); printed forms parse back. Every policy of S1 (<=2 groups), S3-small and S2 (8 ops x 6 indices x 45 operands x named actions) is rendered by an independent emitter, yaml.Marshal and json.Marshal, read back via ucfg/yaml + Unpack as cmd/sandbox does, and must compile to the identical program.",
   note="Trusted: ucfg/yaml and yaml.v2 as dependencies on the documented path; arbitrary strings are represented by the edit-distance-1 neighbourhood and a look-alike list.", ref="DESIGN.md C14"),
 "C13": dict(cat="model_checking", tech="stateless model checking of the real code: cooperative scheduler + iterative-context-bounding DFS over auto-instrumented sources (go build -overlay); sequential history enumeration; separate free-running -race pass",
   text="The current library sources are rewritten with a scheduling point before every statement and run under a hand-written cooperative scheduler; for 8 scenarios (copies sharing backing arrays, two architectures, Assemble||Dump, Assemble||GetInfo, Assemble||text conversions, same value twice, three threads) every schedule within the preemption bound (1; 2 for the small shared-copies scenario; thorough: 2 for all two-thread scenarios) is executed; each call must return what it returns as the only call of a fresh process and every input policy incl. spare slice capacity must be bit-identical; reported schedules are replayed twice in a fresh process. Lock/RLock/Once.Do are rewritten scheduler-aware (deadlocks reported), a watchdog ends stuck workers. Plus all operation histories of length <=4 over 9 operations, text forms over 512 calls in 8/32 fresh processes, and a free-running -race pass of the same bodies plus 48 fresh race-detector processes whose first library calls are concurrent.",
   note="Limits: statement-granularity points; preemption bound 2; map iteration order covered by repetition only; the -race pass covers unsynchronised accesses the cooperative scheduler cannot see.", ref="DESIGN.md C13"),
 "C15": dict(cat="fault_enumeration", tech="enumeration of every failure point before exec realised through inputs (file prefixes, defect kinds, kernel refusals) on the real sandbox binary with a marker-writing probe target",
   text="The built cmd/sandbox runs a probe target (appends a marker first, then issues every partition-cell probe) on 4 base policy files whole (root/uid 65534/-no-new-privs=false/bad target), every line prefix, every byte prefix inside first and last rule (thorough: all), 13 defect kinds per base, an oversize policy, missing file, directory. The same bytes go through ucfg in the harness: if that fails / policy invalid / kernel must refuse => exit non-zero and no marker; else marker exists and the target's observations equal the reference decisions of the policy the file denotes.",
   note="Fault points are realised through inputs and kernel refusals, not by interrupting the sandbox process.", ref="DESIGN.md C15"),
 "C16": dict(cat="exploration", tech="bounded-exhaustive enumeration of all texts over a line alphabet against an independent site-model parser; strace read-fault enumeration",
   text="All texts of <=4 (quick) / <=5 (thorough) lines over a 19-shape alphabet (4 marker kinds incl. bare TEXT, raw syscall with/without fields, loads into AX/BP/stack, negative/unparsable/unknown numbers, XOR idiom, calls with/without fields, neutral, empty, 70000-byte line) for both parsers with/without trailing newline: no panic, same (number,name,caller,location) list as an independent site-model parser, names from oracle tables, monotone under appended functions, error whenever the text cannot be read to the end; plus generated multi-function listings and an EIO injected at every read call of three listings, a directory and a missing file.",
   note="Trusted: the site model (nearest preceding load in the same function after the previous site). Alphabet-bounded, not all strings.", ref="DESIGN.md C16"),
 "C17": dict(cat="fault_enumeration", tech="crash/fault-point enumeration over run histories of the real profiler binary with a fake disassembler and strace write-fault injection",
   text="Histories run(fault)[;run(fault')];run(normal): disassembler stops after p bytes and exits 1 or is killed (every line boundary, every byte of selected lines, around every 4096-byte flush of a 20 kB listing; thorough: every byte), tool missing, SIGKILL or ENOSPC at the N-th write to the cache file, depth-2 sequences; the final normal run must print exactly the cold-cache profile or fail, and a reused cache must equal the complete one; a different binary at the same path must not reuse the cache.",
   note="Crash points at write-syscall granularity and byte prefixes of the content; kernel-level torn writes are not modelled.", ref="DESIGN.md C17"),
 "C18": dict(cat="exploration", tech="exhaustive enumeration of discovered-multiset x blacklist x allow x spelling x format x arch on the real profiler binary, set-algebra oracle, emitted YAML compiled and run on the exact partition",
   text="For every sub-multiset of a 6-site universe (incl. duplicate sites, an unknown number, the XOR idiom) x blacklist subsets x allow subsets (incl. an i386-only name and bogus names) x flag spellings x {config, code} x {amd64, 386} (quick: rotating selection; thorough: full product) the emitted list must equal sort(dedup((found∩table)−B) ∪ (A∩table)); the YAML must load through ucfg and compile to a filter that allows exactly those numbers and answers errno otherwise on every partition cell.",
   note="Trusted: set algebra of the statement for disjoint flag sets; fake go tool stands for the disassembler.", ref="DESIGN.md C18"),
}

ALL = ["C%02d" % i for i in range(1, 20)]
PENDING_REASON = "check not built yet in this revision of /verif (design in DESIGN.md section for this property); will be claimed once its check runs green"

m = {
 "version": 1,
 "setup_cmd": "./setup.sh",
 "hooks": {
  "guard": "verif (Go build tag)",
  "enable": "go build -tags verif (the ./check script always builds the harness with the tag against /repo's working tree)",
  "baseline_off_cmd": "cd /repo && GOFLAGS=-mod=mod GOPROXY=off GOSUMDB=off go test -json -vet=off -count=1 -timeout 25m ./...",
  "source_commits": hooks_commits(),
  "add_only": True,
 },
 "engines": [
  {"name": "vcheck", "path": "harness/cmd/vcheck", "serves_properties": sorted(CHECKS), "kind_free_text": "hand-written Go explorers: bounded-exhaustive policy/program enumerators with an independent cBPF interpreter and reference semantics; label-program explorer; (later) explicit-state BFS with kernel replay, cooperative scheduler, fault enumerators"},
 ],
 "checks": [],
 "not_applicable": [],
 "notes": "All checks: ./check <ID> quick|thorough; replay: ./check <ID> --replay <file>. Known findings: known_findings.json (only 'fixed' entries so far). DESIGN.md explains scopes and bounds.",
}
for pid in ALL:
    if pid in CHECKS:
        c = CHECKS[pid]
        m["checks"].append({
            "property_id": pid,
            "quick_cmd": f"./check {pid} quick",
            "thorough_cmd": f"./check {pid} thorough",
            "evidence_file": f"/verif/evidence/{pid}.json",
            "replay_cmd_template": f"./check {pid} --replay {{path}}",
            "engine": "vcheck",
            "level_claimed": {"category": c["cat"], "text": c["text"], "design_ref": c["ref"]},
            "level_note": c["note"],
            "technique": c["tech"],
        })
    else:
        m["not_applicable"].append({"property_id": pid, "reason": PENDING_REASON})
json.dump(m, open("/verif/MANIFEST.json", "w"), indent=1)
print("claimed", len(m["checks"]), "pending", len(m["not_applicable"]))
