#!/bin/bash
# usage: ./mkmut.sh <name> <file> <python-expr-old> <python-expr-new>  : creates mutants/<name>.diff by replacing one occurrence of old by new in <file>
NAME=$1; FILE=$2; OLD=$3; NEW=$4
W=$(mktemp -d /tmp/mkmut.XXXXXX)
trap 'git -C /repo worktree remove --force "$W" >/dev/null 2>&1; rm -rf "$W"' EXIT
git -C /repo worktree add --detach "$W" HEAD >/dev/null 2>&1
python3 - "$W/$FILE" "$OLD" "$NEW" <<'PY' || exit 1
import sys
p,old,new=sys.argv[1:4]
old=old.encode().decode('unicode_escape'); new=new.encode().decode('unicode_escape')
s=open(p).read()
if s.count(old)<1: print("pattern not found", file=sys.stderr); sys.exit(1)
open(p,'w').write(s.replace(old,new,1))
PY
git -C "$W" diff > "$(dirname "$0")/mutants/$NAME.diff"
wc -l "$(dirname "$0")/mutants/$NAME.diff"
