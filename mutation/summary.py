#!/usr/bin/env python3
"""Summarise the mutation runs (one .tsv per source file, written by ../mutrun.sh; the last line per mutant id counts).
usage: python3 mutation/summary.py [-s]      (-s: also list the survivors with their classification from classified.tsv)"""
import csv, glob, os, sys, collections

here = os.path.dirname(os.path.abspath(__file__))
cls = {}
cpath = os.path.join(here, "classified.tsv")
if os.path.exists(cpath):
    for row in csv.reader(open(cpath), delimiter="\t"):
        if len(row) >= 3 and not row[0].startswith("#"):
            cls[(row[0], row[1])] = row[2:]
tot = collections.Counter()
for f in sorted(glob.glob(os.path.join(here, "*.tsv"))):
    if os.path.basename(f) == "classified.tsv":
        continue
    last = {}
    for row in csv.reader(open(f), delimiter="\t", quoting=csv.QUOTE_NONE):
        if len(row) >= 7:
            last[row[0]] = row
    c = collections.Counter()
    killers = collections.Counter()
    for r in last.values():
        v = r[6]
        c[v.split(":")[0]] += 1
        if v.startswith("killed:"):
            killers[v.split(":")[1]] += 1
    name = os.path.basename(f)[:-4]
    judged = c["killed"] + c["SURVIVED"]
    print(f"{name}: {len(last)} mutants; {c['nocompile']} do not compile/vet, {c['repo-tests']} rejected by the repository's tests, "
          f"{judged} reach the checks: {c['killed']} killed ({', '.join(f'{k} {v}' for k, v in sorted(killers.items()))}), {c['SURVIVED']} survive"
          + (f", {c['harness-nobuild']} harness did not build" if c['harness-nobuild'] else ""))
    tot.update(c)
    if "-s" in sys.argv:
        for r in sorted(last.values(), key=lambda r: r[0]):
            if r[6] == "SURVIVED":
                k = cls.get((name, r[0]), ["UNCLASSIFIED"])
                print(f"    {r[0]} line {r[1]} {r[2]}: {r[3]}  [{r[4][:50]!r} -> {r[5][:50]!r}]  => {' '.join(k)}")
print(f"total: {sum(tot.values())} mutants, {tot['killed']} killed, {tot['SURVIVED']} survive, {tot['repo-tests']} repo-tests, {tot['nocompile']} nocompile")
