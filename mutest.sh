#!/bin/bash
# usage: ./mutest.sh [-t] [-r <rev>] <patch.diff|-> <ID>... : apply a patch to a scratch worktree of /repo, optionally
# run the repository's own tests there (-t), run the given quick checks against it, and remove the worktree.
RUNTESTS=0; REV=HEAD
while getopts "tr:" o; do case $o in t) RUNTESTS=1;; r) REV=$OPTARG;; esac; done; shift $((OPTIND-1))
PATCH=$1; shift; case "$PATCH" in -|/*) ;; *) PATCH="$PWD/$PATCH";; esac
ROOT=$(cd "$(dirname "$0")" && pwd)
W=$(mktemp -d /tmp/mut.XXXXXX)
trap 'git -C /repo worktree remove --force "$W" >/dev/null 2>&1; rm -rf "$W"' EXIT
git -C /repo worktree add --detach "$W" "$REV" >/dev/null 2>&1 || { echo "worktree failed"; exit 2; }
if [ "$PATCH" != "-" ]; then git -C "$W" apply "$PATCH" || { echo "patch does not apply"; exit 2; }; fi
export GOFLAGS=-mod=mod GOPROXY=off GOSUMDB=off GOTOOLCHAIN=local
if [ $RUNTESTS = 1 ]; then (cd "$W" && go build ./... && go test -count=1 ./... 2>&1 | grep -v "no test files" | tail -3); fi
for id in "$@"; do
  out=$(VERIF_REPO="$W" "$ROOT/check" "$id" ${TIER:-quick} 2>&1); rc=$?
  echo "== $id rc=$rc: $(echo "$out" | grep -c '^VIOLATION') VIOLATION lines; $(echo "$out" | tail -1 | cut -c1-200)"
  echo "$out" | grep -A1 '^VIOLATION' | head -4
done
