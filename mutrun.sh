#!/bin/bash
# usage: ./mutrun.sh <file relative to /repo> <check-ID>...        (env: FROM=<n> TO=<n> to run a slice; ONLY="m0002 m0007" to
# re-run named mutants, e.g. the survivors of a first pass with further checks: lines are appended, the last line per id counts)
# Exhaustive first-order mutation run for one source file of elastic/go-seccomp-bpf: every mutant produced by
# harness/cmd/mutgen is put into a scratch worktree (never into /repo); mutants that do not compile or that the
# repository's own tests already reject are set aside; for the rest the named quick checks run in the given order until
# one reports a violation. One line per mutant goes to mutation/<file>.tsv:
#   id  line  func  operator  before  after  verdict  [first violation key]
# verdict: nocompile | repo-tests | killed:<ID> | SURVIVED | harness-nobuild
REL=$1; shift
ROOT=$(cd "$(dirname "$0")" && pwd)
export GOFLAGS=-mod=mod GOPROXY=off GOSUMDB=off GOTOOLCHAIN=local
TAG=$(echo "$REL" | tr / _)
W=$(mktemp -d /tmp/mutrun.XXXXXX); M=$(mktemp -d /tmp/mutgen.XXXXXX); SNAP=$(mktemp -d /tmp/mutsnap.XXXXXX)
trap 'git -C /repo worktree remove --force "$W" >/dev/null 2>&1; rm -rf "$W" "$M" "$SNAP"' EXIT
# the checks run from a snapshot of the harness taken now, so that work on /verif during a long run cannot disturb it
rsync -a --exclude .git --exclude .build --exclude seeded --exclude evidence --exclude replays --exclude mutation "$ROOT"/ "$SNAP"/
git -C /repo worktree add --detach "$W" HEAD >/dev/null 2>&1 || { echo "worktree failed"; exit 2; }
(cd "$ROOT/harness" && go build -o "$M/mutgen" ./cmd/mutgen) || exit 2
"$M/mutgen" "/repo/$REL" "$M/out" || exit 2
mkdir -p "$ROOT/mutation"; OUT="$ROOT/mutation/$TAG.tsv"
[ -z "$FROM" ] && [ -z "$ONLY" ] && : > "$OUT"
n=$(wc -l < "$M/out/index.jsonl"); i=0
while read -r line; do
  i=$((i+1))
  [ -n "$FROM" ] && [ $i -lt "$FROM" ] && continue
  [ -n "$TO" ] && [ $i -gt "$TO" ] && break
  id=$(echo "$line" | jq -r .id)
  if [ -n "$ONLY" ]; then case " $ONLY " in *" $id "*) ;; *) continue;; esac; fi
  desc=$(echo "$line" | jq -r '[.id, .line, .func, .op, (.before|gsub("[\t\n]";" ")), (.after|gsub("[\t\n]";" "))] | @tsv')
  cp "$M/out/$id.go" "$W/$REL"
  verdict=""; key=""
  if ! (cd "$W" && go build ./... && go build -tags verif ./... && go vet ./... ) >/dev/null 2>&1; then verdict=nocompile
  elif ! (cd "$W" && timeout 300 go test -count=1 ./... ) >/dev/null 2>&1; then verdict=repo-tests
  else
    verdict=SURVIVED
    for c in "$@"; do
      out=$(ulimit -v 48000000; VERIF_OUT="$SNAP/.build/out" VERIF_REPO="$W" timeout 1500 "$SNAP/check" "$c" quick 2>&1); rc=$?
      if [ $rc = 2 ]; then verdict=harness-nobuild; break; fi
      if echo "$out" | grep -q '^VIOLATION'; then verdict="killed:$c"; key=$(echo "$out" | grep -A1 '^VIOLATION' | sed -n 2p | sed 's/^ *key=//' | cut -c1-160 | tr '\t' ' '); break; fi
      if [ $rc != 0 ]; then verdict="killed:$c"; key="rc=$rc without a VIOLATION line: $(echo "$out" | tail -1 | cut -c1-120)"; break; fi
    done
  fi
  printf '%s\t%s\t%s\n' "$desc" "$verdict" "$key" >> "$OUT"
  echo "[$i/$n] $id $verdict"
  git -C "$W" checkout -- . >/dev/null 2>&1
done < "$M/out/index.jsonl"
echo "== $REL: $(tac "$OUT" | awk -F'\t' '!seen[$1]++' | cut -f7 | sed 's/:.*//' | sort | uniq -c | tr '\n' ' ')"
