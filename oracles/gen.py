#!/usr/bin/env python3
"""Vendors independent syscall-number / constant oracles into JSON (run once; output committed).
Sources (all on this image, none from /repo):
  kernel UAPI headers: /usr/include/x86_64-linux-gnu/asm/unistd_{64,32,x32}.h, /usr/include/asm-generic/unistd.h
  Go standard library: $GOROOT/src/syscall/zsysnum_linux_{386,amd64,arm,arm64}.go
  x/sys v0.48.0 (newest cached; NOT the version /repo pins): unix/zsysnum_linux_{386,amd64,arm,arm64}.go
  linux/audit.h + linux/elf-em.h for AUDIT_ARCH_*; linux/seccomp.h, linux/prctl.h, asm-generic/errno*.h for constants
"""
import json, re, subprocess, os, sys
out = {"provenance": __doc__, "tables": {}, "audit_arch": {}, "consts": {}}

def hdr(path, defs=()):
    cmd = ["clang", "-E", "-dM", "-x", "c", path] + ["-D" + d for d in defs]
    txt = subprocess.run(cmd, capture_output=True, text=True, check=True).stdout
    macros = {}
    for line in txt.splitlines():
        m = re.match(r"#define (\w+) (.*)$", line)
        if m: macros[m.group(1)] = m.group(2).strip()
    return macros

def ev(macros, expr, depth=0):
    if depth > 20: raise ValueError(expr)
    expr = expr.strip()
    def rep(m):
        tok = m.group(0)
        if re.match(r"0[xX][0-9a-fA-F]+|\d+", tok): return re.sub(r"[uUlL]+$", "", tok)
        if tok in macros: return "(" + str(ev(macros, macros[tok], depth + 1)) + ")"
        raise KeyError(tok)
    e = re.sub(r"0[xX][0-9a-fA-F]+[uUlL]*|\d+[uUlL]*|[A-Za-z_]\w*", rep, expr)
    return int(eval(e, {"__builtins__": {}}))

def nr_table(macros, prefix="__NR_"):
    t = {}
    for k, v in macros.items():
        if not k.startswith(prefix): continue
        name = k[len(prefix):]
        if name in ("syscalls", "arch_specific_syscall") : continue
        try: t[name] = ev(macros, v)
        except Exception: pass
    return t

inc = "/usr/include/x86_64-linux-gnu/asm/"
out["tables"]["x86_64"] = {"kernel_uapi": nr_table(hdr(inc + "unistd_64.h"))}
out["tables"]["i386"] = {"kernel_uapi": nr_table(hdr(inc + "unistd_32.h"))}
x32 = nr_table(hdr(inc + "unistd_x32.h", ["__X32_SYSCALL_BIT=0x40000000"]))
out["tables"]["x32"] = {"kernel_uapi": {k: v & ~0x40000000 for k, v in x32.items()}}
g = hdr("/usr/include/asm-generic/unistd.h", ["__BITS_PER_LONG=64", "__ARCH_WANT_RENAMEAT", "__ARCH_WANT_NEW_STAT", "__ARCH_WANT_SET_GET_RLIMIT", "__ARCH_WANT_TIME32_SYSCALLS", "__ARCH_WANT_MEMFD_SECRET"])
gt = nr_table(g)
gt = {k: v for k, v in gt.items() if not k.startswith("3264_")}
out["tables"]["aarch64"] = {"kernel_uapi_generic": gt}

def gotab(path):
    t = {}
    for line in open(path):
        m = re.match(r"\s*SYS_(\w+)\s*=\s*(\d+|0x[0-9a-fA-F]+)", line)
        if m: t[m.group(1).lower()] = int(m.group(2), 0)
    return t
goroot = subprocess.run(["go", "env", "GOROOT"], capture_output=True, text=True).stdout.strip()
xs = "/root/go/pkg/mod/golang.org/x/sys@v0.48.0/unix/"
for arch, ga in (("x86_64", "amd64"), ("i386", "386"), ("arm", "arm"), ("aarch64", "arm64")):
    out["tables"].setdefault(arch, {})
    out["tables"][arch]["go_syscall"] = gotab(f"{goroot}/src/syscall/zsysnum_linux_{ga}.go")
    out["tables"][arch]["x_sys_v0_48"] = gotab(f"{xs}zsysnum_linux_{ga}.go")

# AUDIT_ARCH
a = hdr("/usr/include/linux/audit.h")
for k, v in a.items():
    if k.startswith("AUDIT_ARCH_") and "(" not in k:
        try: out["audit_arch"][k[len("AUDIT_ARCH_"):]] = ev(a, v) & 0xffffffff
        except Exception as e: print("skip", k, v, e, file=sys.stderr)
# seccomp / prctl / errno
s = hdr("/usr/include/linux/seccomp.h")
for k in ("SECCOMP_SET_MODE_STRICT", "SECCOMP_SET_MODE_FILTER", "SECCOMP_RET_KILL_PROCESS", "SECCOMP_RET_KILL_THREAD", "SECCOMP_RET_TRAP", "SECCOMP_RET_ERRNO", "SECCOMP_RET_USER_NOTIF", "SECCOMP_RET_TRACE", "SECCOMP_RET_LOG", "SECCOMP_RET_ALLOW", "SECCOMP_FILTER_FLAG_TSYNC", "SECCOMP_FILTER_FLAG_LOG", "SECCOMP_RET_DATA", "SECCOMP_RET_ACTION_FULL"):
    out["consts"][k] = ev(s, s[k]) & 0xffffffff
p = hdr("/usr/include/linux/prctl.h")
out["consts"]["PR_SET_NO_NEW_PRIVS"] = ev(p, p["PR_SET_NO_NEW_PRIVS"])
out["consts"]["PR_GET_NO_NEW_PRIVS"] = ev(p, p["PR_GET_NO_NEW_PRIVS"])
e = hdr("/usr/include/asm-generic/errno.h")
out["consts"]["EPERM"] = ev(e, e["EPERM"]); out["consts"]["ENOSYS"] = ev(e, e["ENOSYS"])
out["consts"]["ENOSYS_mips"] = 89  # arch/mips/include/uapi/asm/errno.h (not on this image; from Go: syscall/zerrors_linux_mips*.go)
json.dump(out, open("oracles.json", "w"), indent=0, sort_keys=True)
for a2, srcs in out["tables"].items():
    print(a2, {k: len(v) for k, v in srcs.items()})
print(len(out["audit_arch"]), "audit archs", out["consts"])
