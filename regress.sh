#!/bin/bash
# usage: ./regress.sh [pattern]   - re-runs, for every seeded change under seeded/ (matching the pattern), the first check that caught it
# when it was filed (verified.json) against a scratch worktree with the change applied, and reports whether it still does.
ROOT=$(cd "$(dirname "$0")" && pwd); cd "$ROOT"
export GOFLAGS=-mod=mod GOPROXY=off GOSUMDB=off GOTOOLCHAIN=local
for d in $(ls -d seeded/${1:-C}* | sort -V); do
  n=$(basename $d)
  id=$(python3 - "$d/verified.json" <<'PY'
import json,sys
try:
    v=json.load(open(sys.argv[1]))
    for k,c in v.get("checks",{}).items():
        if c.get("rc")==1: print(k); break
except Exception: pass
PY
)
  # caught only after a later strengthening (or documented as not caught: "none"): see DESIGN.md section 5
  [ -z "$id" ] && [ -f "$d/caught_by" ] && id=$(cat "$d/caught_by")
  [ "$id" = none ] && { echo "$n: documented as not caught (DESIGN.md section 5)"; continue; }
  [ -z "$id" ] && { echo "$n: (no catching check recorded)"; continue; }
  W=$(mktemp -d /tmp/regress.XXXXXX)
  git -C /repo worktree add --detach "$W" HEAD >/dev/null 2>&1
  if git -C "$W" apply "$ROOT/$d/patch.diff" 2>/dev/null; then
    for one in $id; do
      out=$(VERIF_OUT="$ROOT/.build/regress-out" VERIF_REPO="$W" ./check $one quick 2>&1); rc=$?
      echo "$n: $one rc=$rc $(echo "$out" | grep -ac '^VIOLATION') violation lines"
    done
  else echo "$n: patch does not apply"; fi
  git -C /repo worktree remove --force "$W" >/dev/null 2>&1; rm -rf "$W"
done
