#!/bin/bash
# usage: ./seedcheck.sh <srcdir> <name> <check-ID>...
# Confirms a seeded property-breaking change (patch.diff + demonstration + meta.json in <srcdir>) in a scratch worktree:
# repo tests pass with it, the demonstration fails with it and passes without it; then runs the named quick checks
# against the changed tree. Keeps the artefacts under /verif/seeded/<name>/ with the observed results in verified.json.
SRC=$1; NAME=$2; shift 2
ROOT=$(cd "$(dirname "$0")" && pwd)
export GOFLAGS=-mod=mod GOPROXY=off GOSUMDB=off GOTOOLCHAIN=local
W=$(mktemp -d /tmp/seedchk.XXXXXX)
trap 'git -C /repo worktree remove --force "$W" >/dev/null 2>&1; rm -rf "$W"' EXIT
git -C /repo worktree add --detach "$W" HEAD >/dev/null 2>&1 || { echo "worktree failed"; exit 2; }
DST=$ROOT/seeded/$NAME; mkdir -p "$DST"; cp -r "$SRC"/. "$DST"/
rundemo() {
  if ls "$SRC"/*.sh >/dev/null 2>&1; then
    # a shell demonstration: it expects its own directory as <worktree>/_seed/<k>/ and the worktree root as argument
    k=$(basename "$SRC"); mkdir -p "$W/_seed/$k"; cp -r "$SRC"/. "$W/_seed/$k/"
    sh=$(ls "$SRC"/*.sh | head -1)
    (cd "$W" && timeout 600 bash "_seed/$k/$(basename "$sh")" "$W" >/tmp/seedchk.$$.log 2>&1); rc=$?
    rm -rf "$W/_seed"
  elif ls "$SRC"/*_test.go >/dev/null 2>&1; then
    pkg=$(grep -h '^package ' "$SRC"/*_test.go | head -1 | awk '{print $2}')
    case "$pkg" in
      seccomp|seccomp_test) sub=. ;;
      arch|arch_test) sub=arch ;;
      disasm|disasm_test) sub=cmd/seccomp-profiler/disasm ;;
      unix|unix_test) sub=internal/unix ;;
      main) where=$(python3 -c "import json,sys; m=json.load(open(sys.argv[1])); print(m.get('demo',''))" "$SRC/meta.json" 2>/dev/null)
            if echo "$where" | grep -q "cmd/seccomp-profiler"; then sub=cmd/seccomp-profiler; elif echo "$where" | grep -q "cmd/sandbox"; then sub=cmd/sandbox; elif grep -q "cmd/sandbox" "$SRC/meta.json"; then sub=cmd/sandbox; else sub=cmd/seccomp-profiler; fi ;;
      *) sub=zz_seeddemo; mkdir -p "$W/zz_seeddemo" ;;
    esac
    for f in "$SRC"/*_test.go; do cp "$f" "$W/$sub/zz_seed_$(basename "$f")"; done
    names=$(grep -ho '^func Test[A-Za-z0-9_]*' "$SRC"/*_test.go | sed 's/^func //' | paste -sd'|')
    tags=""; grep -q "Verif" "$SRC"/*_test.go && tags="-tags verif"
    if grep -q "go:build race" "$SRC"/*_test.go; then tags="$tags -race"; export CGO_ENABLED=1; fi
    (cd "$W" && go test $tags -count=1 -run "^($names)\$" ./$sub >/tmp/seedchk.$$.log 2>&1); rc=$?
    rm -f "$W/$sub"/zz_seed_*_test.go; [ "$sub" = zz_seeddemo ] && rm -rf "$W/zz_seeddemo"
  else
    d=$(ls -d "$SRC"/*/ | head -1); mkdir -p "$W/_seeddemo"; cp -r "$d"/. "$W/_seeddemo/"
    (cd "$W" && go run ./_seeddemo >/tmp/seedchk.$$.log 2>&1); rc=$?
    rm -rf "$W/_seeddemo"
  fi
  tail -3 /tmp/seedchk.$$.log | cut -c1-200 | sed 's/^/      /'; rm -f /tmp/seedchk.$$.log
  return $rc
}
echo "[$NAME] demo WITHOUT the change:"; rundemo; DEMO_CLEAN=$?
git -C "$W" apply "$SRC/patch.diff" || { echo "[$NAME] patch does not apply to HEAD"; echo '{"applies": false}' > "$DST/verified.json"; exit 3; }
(cd "$W" && go build ./... && go vet ./... >/dev/null 2>&1 && go test -count=1 ./... 2>&1 | grep -v "no test files" | tail -2); TESTS=${PIPESTATUS[0]}
(cd "$W" && go test -count=1 ./... >/dev/null 2>&1); TESTS=$?
echo "[$NAME] repo tests with the change: rc=$TESTS"
echo "[$NAME] demo WITH the change:"; rundemo; DEMO_MUT=$?
RES=""
for id in "$@"; do
  out=$(VERIF_REPO="$W" "$ROOT/check" "$id" quick 2>&1); rc=$?
  nv=$(echo "$out" | grep -c '^VIOLATION')
  echo "[$NAME] check $id: rc=$rc violations_lines=$nv :: $(echo "$out" | grep -A1 '^VIOLATION' | sed -n 2p | cut -c1-220)"
  RES="$RES\"$id\": {\"rc\": $rc, \"violation_lines\": $nv},"
done
echo "{\"applies\": true, \"repo_tests_rc_with_change\": $TESTS, \"demo_rc_without_change\": $DEMO_CLEAN, \"demo_rc_with_change\": $DEMO_MUT, \"checks\": {${RES%,}}, \"repo_head\": \"$(git -C /repo rev-parse --short HEAD)\"}" > "$DST/verified.json"
cat "$DST/verified.json"
