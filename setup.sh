#!/bin/bash
# Builds the harness once so that later ./check calls hit a warm build cache. Nothing it produces is
# needed for correctness; every ./check rebuilds from /repo's working tree.
ROOT=$(cd "$(dirname "$0")" && pwd)
export GOFLAGS=-mod=mod GOPROXY=off GOSUMDB=off GOTOOLCHAIN=local CGO_ENABLED=0
mkdir -p "$ROOT/.build" "$ROOT/evidence"
cd "$ROOT/harness" && go build -tags verif -o "$ROOT/.build/vcheck.setup" ./cmd/vcheck && rm -f "$ROOT/.build/vcheck.setup"
