#!/bin/bash
# Warms the Go build cache so that later ./check calls are fast. Nothing it produces is needed for correctness;
# every ./check rebuilds what it uses from /repo's working tree.
ROOT=$(cd "$(dirname "$0")" && pwd)
export GOFLAGS=-mod=mod GOPROXY=off GOSUMDB=off GOTOOLCHAIN=local CGO_ENABLED=0
mkdir -p "$ROOT/.build" "$ROOT/evidence"
cd "$ROOT/harness" || exit 1
go build -tags verif -o "$ROOT/.build/vcheck.setup" ./cmd/vcheck || exit 1
rm -f "$ROOT/.build/vcheck.setup"
# commands and helper programs
go build -o /dev/null github.com/elastic/go-seccomp-bpf/cmd/sandbox github.com/elastic/go-seccomp-bpf/cmd/seccomp-profiler 2>/dev/null
go build -o /dev/null ./cmd/hello ./cmd/archprobe 2>/dev/null
GOARCH=386 go build -o /dev/null ./cmd/hello 2>/dev/null
go build -tags verif -o /dev/null ./cmd/progprobe 2>/dev/null; GOARCH=386 go build -tags verif -o /dev/null ./cmd/progprobe 2>/dev/null
go build -o /dev/null ./cmd/sysuser ./cmd/stubnative 2>/dev/null; GOARCH=386 go build -o /dev/null ./cmd/sysuser 2>/dev/null
GOOS=js GOARCH=wasm go build -o /dev/null ./cmd/stubprobe 2>/dev/null
(cd /repo/arch && go build -o /dev/null mk_syscalls_linux.go 2>/dev/null)
# race-enabled build (C13's free-running pass)
CGO_ENABLED=1 go build -race -tags verif -o /dev/null ./cmd/vcheck 2>/dev/null
# cgo-linked build of the harness (C11's cgo-linked children)
CGO_ENABLED=1 go build -tags "verif cgolink" -o /dev/null ./cmd/vcheck 2>/dev/null
# standard library for every target of the distribution list (C19)
cd /repo && go tool dist list | xargs -P 16 -I{} sh -c 'GOOS=$(echo {} | cut -d/ -f1) GOARCH=$(echo {} | cut -d/ -f2) go build ./ ./arch ./internal/unix >/dev/null 2>&1'
exit 0
